"""C15 - penalty methods: zero on the feasible set, documented formulas, closure state machine, nesting, stacking."""
import json, math, warnings
from fractions import Fraction as Fr
from harness.coqio import qlit, flit, natlit, lst, opt

ID = "C15"
TITLE = "Penalty methods are zero on the feasible set and follow their formulas"
PROPS_FILE = "Props/Properties_C15.v"
LEVEL = "proof"
SIZES = {"quick": 2000, "thorough": 30000}
PARALLEL = True
SHARD = 120
COQ_TIMEOUT = 900
RULE = ("cases: mode in {nest (decorator on decorator, depth 1-4), and_/or_/not_ (coupler), additive stack, as_penalty}; all nine "
        "kinds; k in {absent, 0.5, 1, 1.5, 2, 20, 100, inf (uniform), boundary 0/-1}, h in {absent, 0.5, 1, 1.5, 2, 5, boundary 0}; "
        "scripts of 0-9 iter()/iter(i)/clear()/store(x[,i]) calls issued through the handle of any nesting level (iteration counts "
        "0-6); 1-4 evaluation points on the dyadic grid k/8 placed on / inside / outside every level's boundary, conditions linear, "
        "reciprocal (ZeroDivisionError on a hyperplane) or infinite on a half space; non-trivial = at least one level violated or a "
        "non-empty script; distinct = distinct case JSON")
TRUSTED = ["real-number axioms of Coq's standard library (Reals) for the algebraic theorems (stated over NumR)",
           "conditions, base functions and numpy.log are harness-owned/recorded tables in the correspondence (the theorems quantify over them)",
           "exact class (dyadic grid, no barrier / lagrange_inequality / combinator level): model run over Q and compared exactly; "
           "other cases: model run over binary64 (PrimFloat) in the code's operation order and compared within 1e-9*(1+|v|)"]
ASSUMPTIONS = ["numpy-scalar conditions combined with k*h**n == 0 (numpy division gives inf/nan instead of ZeroDivisionError) are outside the model",
               "IEEE rounding in the penalty formulas is modelled, not verified (theorems are over the reals)",
               "negative / slice arguments of stored(i), iter(i), store(x,i) are outside the model (nat only)",
               "k = inf is modelled precisely for the uniform kinds only (other kinds: 'some non-finite value')",
               "applying one decorator instance to two functions (shared closure cells) is outside the model",
               "conditions raising exceptions other than ZeroDivisionError are outside the model"]
META = dict(
    technique="Coq proof (real arithmetic per kind, induction over nesting depth and multiplier histories) + model/implementation "
              "correspondence by vm_compute",
    level_text=("For each of the nine penalty kinds the added amount equals the documented expression in the violation, k and h**n; "
                "it is zero on the feasible set and strictly positive off it for the quadratic / linear / uniform kinds and for the "
                "Lagrange kinds with zero multipliers; error() is the root of the summed squared violations; iter()/clear()/store() "
                "change exactly the documented cells at every nesting level; stacked penalties add; a ZeroDivisionError in a condition "
                "gives +inf.  Refuted on the faithful model and on /repo (documented design, known findings): barrier_inequality is "
                "non-zero on the feasible interior and infinite on the boundary; Lagrange kinds with stored multipliers add negative "
                "amounts."),
    level_note=("Trusted: Coq kernel+VM, harness printers/oracles; theorems over R (stdlib real axioms) with log and sqrt as section "
                "variables; executed over Q / binary64 on generated stacks every run."),
    design_ref="5/C15, 7/F6")

KINDS = ["quadratic_equality", "lagrange_equality", "uniform_equality", "linear_equality", "quadratic_inequality",
         "lagrange_inequality", "uniform_inequality", "linear_inequality", "barrier_inequality"]
COQK = dict(zip(KINDS, ["QuadEq", "LagEq", "UniEq", "LinEq", "QuadIneq", "LagIneq", "UniIneq", "LinIneq", "BarIneq"]))
INEQ = {k for k in KINDS if k.endswith("_inequality")}
LAGR = {"lagrange_equality", "lagrange_inequality"}
DEFK = {k: (math.inf if k.startswith("uniform") else 20 if k.startswith("lagrange") else 100) for k in KINDS}
TOL = 1e-9

# ------------------------------------------------------------------ harness-owned functions

def cond_value(spec, x):
    """value of the generated condition at x: float, or 'zd' when it raises ZeroDivisionError"""
    d = sum(a * xi for a, xi in zip(spec["a"], x)) - spec["b"]
    t = spec["t"]
    if t == "lin":
        return d
    if t == "recip":            # c/(a.x-b) + e : ZeroDivisionError on the hyperplane
        if d == 0:
            return "zd"
        return spec["c"] / d + spec["e"]
    if t == "infstep":          # +inf on the open half space a.x-b > 0
        return math.inf if d > 0 else d
    raise ValueError(t)


def make_cond(spec):
    usenp = spec.get("np", False)
    def condition(x):
        d = sum(a * xi for a, xi in zip(spec["a"], x)) - spec["b"]
        if spec["t"] == "lin":
            v = d
        elif spec["t"] == "recip":
            v = spec["c"] / d + spec["e"]
        else:
            v = math.inf if d > 0 else d
        if usenp:
            import numpy
            return numpy.float64(v)
        return v
    return condition


def base_value(spec, x):
    return sum(a * xi for a, xi in zip(spec["a"], x)) + spec["b"]


def make_base(spec):
    return lambda x: sum(a * xi for a, xi in zip(spec["a"], x)) + spec["b"]

# ------------------------------------------------------------------ generation

def _g(rng, lo=-16, hi=16):
    return rng.randint(lo, hi) / 8.0


def _kw(rng, kind, boundary):
    r = rng.random()
    if r < 0.25:
        k = "absent"
    elif kind.startswith("uniform") and r < 0.45:
        k = "inf"
    else:
        k = rng.choice([0.5, 1, 1.5, 2, 2.0, 20, 100, 1.0, 100.0])
    h = rng.choice(["absent", "absent", 0.5, 1, 1.5, 2, 5, 2.0, 5.0])
    if boundary and rng.random() < 0.5:
        k = rng.choice([0, -1, 0.0, -1.0])
    elif boundary:
        h = rng.choice([0, 0.0])
    return k, h


def _cond(rng, dim, points, boundary_bias=True):
    """a condition whose boundary passes through (or near) one of the points"""
    t = rng.choice(["lin"] * 6 + ["recip"] * 2 + ["infstep"])
    a = [rng.choice([-2, -1, -0.5, 0.5, 1, 1, 2, 0]) for _ in range(dim)]
    if all(v == 0 for v in a):
        a[0] = 1.0
    p = rng.choice(points)
    b = sum(ai * xi for ai, xi in zip(a, p))
    if rng.random() < 0.6:
        b += rng.choice([-2, -1, -0.5, -0.125, 0.125, 0.5, 1, 2])   # p strictly inside or outside
    spec = dict(t=t, a=[float(v) for v in a], b=float(b))
    if t == "recip":
        spec["c"] = rng.choice([0.5, 1.0, -1.0, 2.0])
        spec["e"] = rng.choice([0.0, 0.0, -1.0, 0.5, -0.5])
    if rng.random() < 0.1:
        spec["np"] = True
    return spec


def _level(rng, dim, points, kinds=None, boundary=False):
    kind = rng.choice(kinds or KINDS)
    k, h = _kw(rng, kind, boundary)
    return dict(kind=kind, cond=_cond(rng, dim, points), k=k, h=h)


def _script(rng, depth, npts, maxlen=9):
    ops, n = [], [0] * depth
    for _ in range(rng.choice([0, 1, 2, 3, 4, 6, maxlen])):
        lvl = rng.randrange(depth) if rng.random() < 0.5 else 0
        r = rng.random()
        if r < 0.35:
            if max(n[lvl:]) < 6:
                ops.append(["iter", lvl, None])
                for j in range(lvl, depth):
                    n[j] += 1
        elif r < 0.55:
            i = rng.randint(0, 6)
            ops.append(["iter", lvl, i])
            for j in range(lvl, depth):
                n[j] = i
        elif r < 0.65:
            ops.append(["clear", lvl])
            for j in range(lvl, depth):
                n[j] = 0
        else:
            ops.append(["store", lvl, rng.randrange(npts), rng.choice([None, None, None, 0, 1, 2, 3, 5, 7])])
    return ops


def _points(rng, dim):
    return [[_g(rng) for _ in range(dim)] for _ in range(rng.choice([1, 2, 3, 4]))]


def _base(rng, dim, zero_p=0.5):
    if rng.random() < zero_p:
        return dict(a=[0.0] * dim, b=0.0)
    return dict(a=[rng.choice([0, 0, 1, -1, 0.5]) * 1.0 for _ in range(dim)], b=_g(rng))


def _nest(rng, dim, points, depth=None, kinds=None, boundary=False, zero_p=0.5):
    depth = depth or rng.choice([1, 1, 2, 2, 3, 4])
    levels = [_level(rng, dim, points, kinds, boundary and rng.random() < 0.5) for _ in range(depth)]
    base = _base(rng, dim, zero_p)
    wp = (base["b"] == 0.0 and not any(base["a"]) and rng.random() < 0.3)   # innermost built by constraints.with_penalty
    return dict(levels=levels, base=base, with_penalty=wp)


def _settings(rng):
    s = {}
    r = rng.random()
    if r < 0.3:
        s["ptype"] = rng.choice(KINDS)
    elif r < 0.4:
        s["ptype"] = None
    r = rng.random()
    if r < 0.3:
        s["k"] = rng.choice([0.5, 2, 1.0, 20])
    elif r < 0.4:
        s["k"] = None
    if rng.random() < 0.3:
        s["h"] = rng.choice([1, 2, 0.5, 5.0])
    return s


def _sanitize(case):
    """numpy scalars do not raise ZeroDivisionError (k*h**n == 0 then gives inf/nan instead of an exception): conditions
    return numpy.float64 only in cases without a zero / negative multiplier"""
    nests = list(case.get("members", [])) + ([case["top"]] if "top" in case else [])
    lvls = [lv for ns in nests for lv in ns["levels"]]
    if any(lv["k"] in (0, -1) or lv["h"] == 0 for lv in lvls):
        for lv in lvls:
            lv["cond"].pop("np", None)
    return case


def generate(rng, n, tier):
    for c in _generate(rng, n, tier):
        yield _sanitize(c)


def _generate(rng, n, tier):
    for idx in range(n):
        dim = rng.choice([1, 1, 2, 3])
        points = _points(rng, dim)
        r = rng.random()
        boundary = rng.random() < 0.06
        if r < 0.12:
            # augmented-Lagrangian usage: store(x); iter() cycles on Lagrange kinds (multiplier histories with n >= 1)
            depth = rng.choice([1, 1, 2, 3])
            kinds = [rng.choice(sorted(LAGR)) if j == 0 or rng.random() < 0.6 else rng.choice(KINDS) for j in range(depth)]
            levels = []
            for kd in kinds:
                lv = _level(rng, dim, points, [kd])
                if rng.random() < 0.85:
                    lv["cond"]["t"] = "lin"
                if rng.random() < 0.5:
                    lv["k"], lv["h"] = rng.choice([(1, 2), (0.5, 2), (2, 1), (1, 1), (20, 5), ("absent", "absent")])
                levels.append(lv)
            sc = []
            for it in range(rng.randint(1, 6)):
                if rng.random() < 0.85:
                    sc.append(["store", rng.randrange(depth) if rng.random() < 0.2 else 0, rng.randrange(len(points)), None])
                sc.append(["iter", 0, None])
            if rng.random() < 0.2:
                sc.append(["store", 0, rng.randrange(len(points)), rng.choice([0, 1, 2])])
            yield dict(mode="nest", dim=dim, points=points, top=dict(levels=levels, base=_base(rng, dim), with_penalty=False),
                       members=[], script=sc)
        elif r < 0.62:
            nest = _nest(rng, dim, points, boundary=boundary)
            # single-kind sweeps keep every kind well represented at depth 1
            if rng.random() < 0.35:
                nest = _nest(rng, dim, points, depth=1, kinds=[KINDS[idx % 9]], boundary=boundary)
            yield dict(mode="nest", dim=dim, points=points, top=nest, members=[],
                       script=_script(rng, len(nest["levels"]), len(points)))
        elif r < 0.84:
            mode = rng.choice(["and", "or", "not"])
            nm = 1 if mode == "not" else rng.choice([1, 2, 2, 3])
            members = []
            for _ in range(nm):
                m = _nest(rng, dim, points, depth=rng.choice([1, 1, 2]), zero_p=0.8)
                m["pre"] = _script(rng, len(m["levels"]), len(points), maxlen=4)
                members.append(m)
            yield dict(mode=mode, dim=dim, points=points, members=members, settings=_settings(rng),
                       script=_script(rng, 1, len(points), maxlen=5))
        elif r < 0.95:
            members = []
            for _ in range(rng.choice([1, 2, 3])):
                m = _nest(rng, dim, points, depth=rng.choice([1, 1, 2]), zero_p=1.0)
                m["pre"] = _script(rng, len(m["levels"]), len(points), maxlen=4)
                members.append(m)
            outer = [_level(rng, dim, points) for _ in range(rng.choice([0, 1, 2]))]
            yield dict(mode="additive", dim=dim, points=points, members=members, base=_base(rng, dim),
                       top=dict(levels=outer), script=_script(rng, len(outer), len(points), maxlen=5) if outer else [])
        else:
            dim = rng.choice([1, 2, 3])
            x = [_g(rng) for _ in range(dim)]
            ct = rng.choice(["clip", "pin", "id", "shift"])
            cs = dict(t=ct, lo=_g(rng, -8, 0), hi=_g(rng, 0, 8), i=rng.randrange(dim), v=_g(rng))
            s = {}
            if rng.random() < 0.5:
                s["ptype"] = rng.choice([k for k in KINDS if k != "barrier_inequality"])
            if rng.random() < 0.5:
                s["k"] = rng.choice([1, 2.0, 0.5, 100])
            if rng.random() < 0.3:
                s["h"] = rng.choice([2, 5.0])
            yield dict(mode="as_penalty", dim=dim, points=[x], constraint=cs, settings=s,
                       script=_script(rng, 1, 1, maxlen=3))

# ------------------------------------------------------------------ implementation driver

def _enc(v):
    try:
        v = float(v)
    except Exception:
        return {"other": type(v).__name__}
    if v != v:
        return "nan"
    if v == math.inf:
        return "inf"
    if v == -math.inf:
        return "-inf"
    return v


def _call(f, *a):
    try:
        return _enc(f(*a))
    except ZeroDivisionError:
        return {"raise": "ZeroDivisionError"}
    except Exception as e:
        return {"raise": type(e).__name__}


def _kwargs(lv):
    kw = {}
    if lv["k"] != "absent":
        kw["k"] = math.inf if lv["k"] == "inf" else lv["k"]
    if lv["h"] != "absent":
        kw["h"] = lv["h"]
    return kw


def _build_nest(nest, basefn):
    """returns handles outermost first"""
    import mystic.penalty as mp
    from mystic.constraints import with_penalty
    f = basefn
    handles = []
    levels = nest["levels"]
    for j in range(len(levels) - 1, -1, -1):
        lv = levels[j]
        ptype = getattr(mp, lv["kind"])
        if j == len(levels) - 1 and nest.get("with_penalty"):
            f = with_penalty(ptype, **_kwargs(lv))(make_cond(lv["cond"]))
        else:
            f = ptype(make_cond(lv["cond"]), **_kwargs(lv))(f)
        handles.insert(0, f)
    return handles


def _apply_script(handles, script, points):
    for op in script:
        h = handles[op[1]]
        if op[0] == "iter":
            h.iter() if op[2] is None else h.iter(op[2])
        elif op[0] == "clear":
            h.clear()
        else:
            h.store(points[op[2]]) if op[3] is None else h.store(points[op[2]], op[3])


def _observe(handles, points):
    out = []
    for h in handles:
        ys = h.stored()
        out.append(dict(n=int(h.iteration()), ys=[_enc(y) for y in ys],
                        stored_i=[_enc(h.stored(i)) for i in (0, len(ys), len(ys) + 2)],
                        func=[_call(h, list(p)) for p in points],
                        error=[_call(h.error, list(p)) for p in points],
                        ptype=getattr(h, "ptype", None)))
    return out


def _constraint_fn(cs):
    t = cs["t"]
    if t == "clip":
        return lambda x: [min(max(v, cs["lo"]), cs["hi"]) for v in x]
    if t == "pin":
        return lambda x: [cs["v"] if i == cs["i"] else v for i, v in enumerate(x)]
    if t == "shift":
        return lambda x: [v + cs["v"] for v in x]
    return lambda x: list(x)


def run_impl(case):
    import numpy
    from mystic import coupler
    warnings.simplefilter("ignore")
    points = case["points"]
    mode = case["mode"]
    out = {}
    with numpy.errstate(all="ignore"):
        if mode == "as_penalty":
            import mystic.penalty as mp
            from mystic.constraints import as_penalty
            cf = _constraint_fn(case["constraint"])
            s = dict(case["settings"])
            pt = s.pop("ptype", None)
            p = as_penalty(cf, getattr(mp, pt) if pt else None, **s)
            _apply_script([p], case["script"], points)
            out["top"] = _observe([p], points)
            out["cx"] = [float(v) for v in cf(points[0])]
            out["cond"] = _call(p.func, list(points[0]))
            return out
        # extra arguments of the caller reach the decorated function (and only it), for every penalty kind
        try:
            import mystic.penalty as mp
            probe = []
            for kind_ in ("quadratic_equality", "quadratic_inequality", "linear_equality", "linear_inequality", "uniform_equality", "uniform_inequality",
                          "lagrange_equality", "lagrange_inequality", "barrier_inequality"):
                base2 = lambda x, shift=0.0: float(sum(x)) + shift
                pz = getattr(mp, kind_)(lambda x: -1.0 if kind_.endswith("inequality") else 0.0, k=1.0)(base2)      # condition satisfied: no penalty term
                x_ = list(points[0])
                probe.append([kind_, _call(pz, x_), _call(pz, x_, 2.5), _call(lambda x: pz(x, shift=-1.5), x_)])
            out["extra_args"] = probe
        except Exception as e:
            out["extra_args_error"] = type(e).__name__
        mh = []
        for m in case["members"]:
            hs = _build_nest(m, make_base(m["base"]))
            _apply_script(hs, m["pre"], points)
            mh.append(hs)
        if mode == "nest":
            handles = _build_nest(case["top"], make_base(case["top"]["base"]))
        elif mode in ("and", "or", "not"):
            import mystic.penalty as mp
            s = dict(case["settings"])
            if s.get("ptype"):
                s["ptype"] = getattr(mp, s["ptype"])
            if mode == "and":
                handles = [coupler.and_(*[h[0] for h in mh], **s)]
                # the same penalty object named twice is two terms of the sum
                try:
                    m0 = mh[0][0]
                    twin = lambda x, _p=m0: _p(x)       # another object with the same values
                    one, two = coupler.and_(m0, twin, **s), coupler.and_(m0, m0, **s)
                    out["and_dup"] = [[_call(one, list(p)), _call(two, list(p))] for p in points]
                except Exception as e:
                    out["and_dup_error"] = type(e).__name__
            elif mode == "or":
                handles = [coupler.or_(*[h[0] for h in mh], **s)]
            else:
                handles = [coupler.not_(mh[0][0], **s)]
        else:  # additive
            f = make_base(case["base"])
            for h in mh:
                f = coupler.additive(h[0])(f)
            out["stack"] = [_call(f, list(p)) for p in points]
            out["stack_has_iter"] = hasattr(f, "iter")
            handles = _build_nest(case["top"], f) if case["top"]["levels"] else []
        _apply_script(handles, case["script"], points)
        out["top"] = _observe(handles, points)
        out["members"] = [_observe(hs, points) for hs in mh]
        if mode == "additive":
            out["stack_after"] = [_call(f, list(p)) for p in points]
    return out

# ------------------------------------------------------------------ oracle (property statement on the implementation)

def _fail(clause, site, pattern, detail):
    return dict(clause=clause, site=site, pattern=pattern, detail=detail)


def _isnum(v):
    return isinstance(v, (int, float)) and not isinstance(v, bool)


def _kval(lv):
    k = DEFK[lv["kind"]] if lv["k"] == "absent" else (math.inf if lv["k"] == "inf" else lv["k"])
    h = 5 if lv["h"] == "absent" else lv["h"]
    return k, h


def _ref_state(levels, script, condtab):
    """documented closure semantics: iter() advances / iter(i) sets / clear() resets every level from the handle inward;
    store() records the condition value at the current (or given) iteration in the Lagrange kinds only"""
    n = [0] * len(levels)
    ys = [[] for _ in levels]
    for op in script:
        lvl = op[1]
        if op[0] == "iter":
            for j in range(lvl, len(levels)):
                n[j] = n[j] + 1 if op[2] is None else op[2]
        elif op[0] == "clear":
            for j in range(lvl, len(levels)):
                n[j] = 0; ys[j] = []
        else:
            i = op[3]
            for j in range(lvl, len(levels)):
                if levels[j]["kind"] in LAGR:
                    if i is None:
                        i = n[j]
                    y = condtab[j][op[2]]
                    y = "inf" if y in ("zd", math.inf) else ("?" if y != y else y)
                    if i >= len(ys[j]):
                        ys[j] = ys[j] + [0.0] * (i - len(ys[j])) + [y]
                    else:
                        ys[j][i] = y
    return n, ys


def _formula(kind, k, h, n, ys, c):
    """documented added amount (Fraction, 'inf', or None when not judged); also returns (multiplier, info)"""
    if not (_isnum(k) and _isnum(h)) or c in ("zd",) or not _isnum(c) or c != c:
        return None, None
    kinf = (k == math.inf)
    c = Fr(c) if abs(c) != math.inf else c
    if c in (math.inf, -math.inf):
        return None, None
    hn = Fr(h) ** n
    if kinf:
        if kind == "uniform_equality":
            return ("inf" if c != 0 else Fr(0)) if hn > 0 else None, None
        if kind == "uniform_inequality":
            return ("inf" if c > 0 else Fr(0)) if hn > 0 else None, None
        return None, None
    kk = Fr(k) * hn
    if kind == "quadratic_equality":
        return kk * c * c, None
    if kind == "linear_equality":
        return kk * abs(c), None
    if kind == "uniform_equality":
        return (kk if c != 0 else Fr(0)), None
    if kind == "uniform_inequality":
        return (kk if c > 0 else Fr(0)), None
    if kind == "quadratic_inequality":
        return 2 * kk * max(Fr(0), c) ** 2, None
    if kind == "linear_inequality":
        return 2 * kk * max(Fr(0), c), None
    if kind == "barrier_inequality":
        if kk <= 0:
            return None, None
        if c >= 0:
            return "inf", None
        return Fr(-0.5) / kk * Fr(math.log(float(-c))), None
    st = lambda i: (ys[i] if i < len(ys) else 0.0)
    if any(not _isnum(st(i)) for i in range(n)):
        return None, None
    if kind == "lagrange_equality":
        lam, kq = Fr(0), Fr(k)
        for i in range(n):
            lam += 2 * kq * Fr(st(i)); kq *= Fr(h)
        return kq * c * c + lam * c, lam
    if kind == "lagrange_inequality":
        beta, kq = Fr(0), Fr(k)
        for i in range(n):
            if kq == 0:
                return None, None
            beta += 2 * kq * max(-beta / (2 * kq), Fr(st(i))); kq *= Fr(h)
        if kq == 0:
            return None, None
        mpf = max(-beta / (2 * kq), c)
        return kq * mpf * mpf + beta * mpf, beta
    raise ValueError(kind)


def _close(a, b, scale=0.0):
    return abs(float(a) - float(b)) <= TOL * (1 + abs(float(b)) + scale)


def _judge_level(out, site_kind, k, h, n, ys, c, total, inner, where):
    """value / feasibility clauses for one level at one point. total, inner: encoded values"""
    site = "penalty." + site_kind
    if c == "zd":
        if total != "inf":
            out.append(_fail("div_by_zero_gives_inf", site, "zero-division-not-inf", dict(where=where, total=total)))
        return
    if isinstance(inner, dict) or isinstance(total, dict):
        return     # a ZeroDivisionError of the code itself (k*h**n == 0): rejected input, judged by the correspondence
    f, mult = _formula(site_kind, k, h, n, ys, c)
    if f is None or not _isnum(inner):
        return
    pos = (_isnum(k) and k > 0 and _isnum(h) and h > 0)
    sat = (c <= 0) if site_kind in INEQ else (c == 0)
    if f == "inf":
        if total != "inf":
            out.append(_fail("value_is_formula", site, "formula", dict(where=where, total=total, expected="inf")))
            return
        added = math.inf
    else:
        if not _isnum(total):
            out.append(_fail("value_is_formula", site, "formula", dict(where=where, total=total, expected=float(f))))
            return
        added = total - inner
        if not _close(added, f, abs(inner)):
            out.append(_fail("value_is_formula", site, "formula",
                             dict(where=where, total=total, inner=inner, expected_added=float(f), k=k, h=h, n=n, ys=ys, c=c)))
            return
    if not pos:
        return
    tol0 = TOL * (1 + abs(inner))
    if sat and not abs(added) <= tol0:
        if site_kind == "barrier_inequality":
            pat = "feasible-boundary-infinite" if c == 0 else "feasible-interior-nonzero"
        elif site_kind == "lagrange_inequality" and mult:
            pat = "feasible-negative-with-multipliers"
        else:
            pat = "feasible-nonzero"
        out.append(_fail("zero_on_feasible", site, pat, dict(where=where, added=added, c=c, k=k, h=h, n=n, ys=ys)))
    if not sat and not added > tol0 * 0:
        if site_kind == "lagrange_equality" and mult:
            pat = "violation-nonpositive-with-multipliers"
        else:
            pat = "violation-nonpositive"
        out.append(_fail("positive_on_violation", site, pat, dict(where=where, added=added, c=c, k=k, h=h, n=n, ys=ys)))


def _judge_nest(out, levels, condtab, basevals, obs_levels, script, points, label, judge_state=True):
    """levels: specs; condtab[j][p]; basevals[p] encoded; obs_levels: impl observations"""
    nref, yref = _ref_state(levels, script, condtab)
    for j, (lv, ob) in enumerate(zip(levels, obs_levels)):
        site = "penalty." + lv["kind"]
        if judge_state:
            if ob["n"] != nref[j]:
                out.append(_fail("iter_clear_all_levels", site, "iteration", dict(level=j, got=ob["n"], expected=nref[j], where=label)))
            exp_ys = [(y if isinstance(y, str) else _enc(y)) for y in yref[j]]
            if len(ob["ys"]) != len(exp_ys) or any(e != "?" and g != e for g, e in zip(ob["ys"], exp_ys)):
                out.append(_fail("iter_clear_touch_nothing_else", site, "stored", dict(level=j, got=ob["ys"], expected=yref[j], where=label)))
            ys = ob["ys"]
            exp_i = [(ys[i] if i < len(ys) else 0.0) for i in (0, len(ys), len(ys) + 2)]
            if ob["stored_i"] != exp_i:
                out.append(_fail("stored_index", site, "stored-i", dict(level=j, got=ob["stored_i"], expected=exp_i)))
        k, h = _kval(lv)
        for p in range(len(points)):
            inner = obs_levels[j + 1]["func"][p] if j + 1 < len(levels) else basevals[p]
            _judge_level(out, lv["kind"], k, h, ob["n"], ob["ys"], condtab[j][p], ob["func"][p], inner,
                         dict(nest=label, level=j, point=points[p]))
            # error(x) = root of the summed squared violations of this level and all inner ones
            cs = [condtab[i][p] for i in range(j, len(levels))]
            e = ob["error"][p]
            if any(c in ("zd", math.inf) for c in cs):
                if e != "inf":
                    out.append(_fail("error_is_violation", site, "error-not-inf", dict(level=j, point=points[p], got=e)))
            elif all(_isnum(c) and abs(c) != math.inf and c == c for c in cs):
                s = 0.0
                for i, c in zip(range(j, len(levels)), cs):
                    v = max(0.0, c) if levels[i]["kind"] in INEQ else c
                    s += v * v
                if not (_isnum(e) and _close(e, math.sqrt(s))):
                    out.append(_fail("error_is_violation", site, "error-value", dict(level=j, point=points[p], got=e, expected=math.sqrt(s))))


def _tabs(nest, points):
    condtab = [[cond_value(lv["cond"], p) for p in points] for lv in nest["levels"]]
    return condtab


def _dec(v):
    """encoded value -> float (inf/nan) or None for raises"""
    if isinstance(v, dict):
        return None
    return {"inf": math.inf, "-inf": -math.inf, "nan": math.nan}.get(v, v) if isinstance(v, str) else v


def _member_cond(mode, case, obs, p):
    """value of the combined condition at point index p, from the members' observed values.  'zd' / float / None"""
    vals = [m[0]["func"][p] for m in obs["members"]]
    if mode == "not":
        return None
    if any(isinstance(v, dict) for v in vals):
        return "zd" if all((not isinstance(v, dict)) or v.get("raise") == "ZeroDivisionError" for v in vals) else None
    vals = [_dec(v) for v in vals]
    if any(v != v or v == -math.inf for v in vals):
        return None
    if mode == "and":
        s = 0
        for v in vals:
            s = s + v
        return s
    return min(vals)


def _comb_level(mode, case, obs):
    s = case["settings"]
    pt = s.get("ptype")
    if not pt:
        pt = case["members"][0]["levels"][0]["kind"] if mode == "not" else "linear_equality"
    k = s["k"] if "k" in s else 1
    if k is None:
        k = "absent"
    return dict(kind=pt, k=k, h=s.get("h", "absent"))


def oracle(case, obs):
    out = []
    if "__exception__" in obs:
        return [_fail("no-crash", "penalty", obs["__exception__"], obs.get("__msg__"))]
    points = case["points"]
    mode = case["mode"]
    for kind_, v0, v1, v2 in obs.get("extra_args", []):
        if _isnum(v0) and math.isfinite(v0) and not (_isnum(v1) and _isnum(v2) and _close(v1, v0 + 2.5) and _close(v2, v0 - 1.5)):
            out.append(_fail("returns_decorated_value_where_satisfied", "penalty." + kind_, "extra-arguments-not-forwarded-to-the-decorated-function",
                             dict(plain=v0, positional=v1, keyword=v2)))
            break
    for pair in obs.get("and_dup", []):
        a, b = pair
        if _isnum(a) and _isnum(b) and math.isfinite(a) and math.isfinite(b) and not _close(b, a):
            out.append(_fail("stacked_penalties_add", "coupler.and_", "repeated-member-not-counted-twice", dict(with_twin=a, same_object_twice=b)))
            break
    if mode == "as_penalty":
        x, cx = points[0], obs["cx"]
        rn = math.sqrt(sum((a - b) ** 2 for a, b in zip(cx, x)))
        if not (_isnum(obs["cond"]) and _close(obs["cond"], rn)):
            out.append(_fail("as_penalty_condition", "constraints.as_penalty", "rnorm", dict(got=obs["cond"], expected=rn)))
        lv = dict(kind=case["settings"].get("ptype") or "quadratic_equality", k=case["settings"].get("k", "absent"),
                  h=case["settings"].get("h", "absent"))
        if obs["top"][0]["ptype"] != lv["kind"]:
            out.append(_fail("as_penalty_condition", "constraints.as_penalty", "ptype", obs["top"][0]["ptype"]))
        if _isnum(obs["cond"]):
            _judge_nest(out, [lv], [[obs["cond"]]], [0.0], obs["top"], case["script"], points, "as_penalty")
        return out
    for mi, (m, mo) in enumerate(zip(case["members"], obs["members"])):
        _judge_nest(out, m["levels"], _tabs(m, points), [_enc(base_value(m["base"], p)) for p in points], mo, m["pre"], points,
                    "member%d" % mi)
    if mode == "nest":
        top = case["top"]
        _judge_nest(out, top["levels"], _tabs(top, points), [_enc(base_value(top["base"], p)) for p in points], obs["top"],
                    case["script"], points, "top")
    elif mode in ("and", "or", "not"):
        lv = _comb_level(mode, case, obs)
        if obs["top"][0]["ptype"] != lv["kind"]:
            out.append(_fail("combinator", "coupler.%s_" % mode, "ptype", obs["top"][0]["ptype"]))
        if mode == "not":
            m0 = case["members"][0]["levels"][0]
            tab = []
            for p in points:
                c = cond_value(m0["cond"], p)
                if c == "zd":
                    tab.append("zd")
                elif lv["kind"] in INEQ:
                    tab.append(0 - c)
                else:
                    tab.append(1.0 if not c else 0.0)
        else:
            tab = [_member_cond(mode, case, obs, p) for p in range(len(points))]
        tab = [(math.nan if c is None else c) for c in tab]   # nan = not judged
        _judge_nest(out, [lv], [tab], [0.0] * len(points), obs["top"], case["script"], points, mode + "_")
    else:  # additive: f(x) + p1(x) + p2(x) ...
        for p in range(len(points)):
            vals = [_enc(base_value(case["base"], points[p]))] + [mo[0]["func"][p] for mo in obs["members"]]
            got = obs["stack"][p]
            if any(isinstance(v, dict) for v in vals) or isinstance(got, dict):
                continue
            vals = [_dec(v) for v in vals]
            s = 0.0
            for v in vals:
                s = s + v
            g = _dec(got)
            if s != s:
                continue
            if not ((g == s) if abs(s) == math.inf else (_isnum(g) and _close(g, s))):
                out.append(_fail("stacked_add", "coupler.additive", "sum", dict(point=points[p], got=got, expected=s)))
            if obs["stack_after"][p] != got:
                out.append(_fail("iter_clear_touch_nothing_else", "coupler.additive", "outer-script-changed-members",
                                 dict(point=points[p], before=got, after=obs["stack_after"][p])))
        top = case["top"]
        if top["levels"]:
            _judge_nest(out, top["levels"], _tabs(top, points), obs["stack"], obs["top"], case["script"], points, "outer")
    return out

# ------------------------------------------------------------------ Coq side

def coq_preamble():
    return r"""
From Coq Require Import Qabs.
From Coq Require Import PrimFloat.
From MV Require Import Common.Num Pure.Penalty.
Section H.
  Variable N : Num.
  Variable lg sq : T N -> T N.
  Definition ctab (t : list (cval N)) : nat -> cval N := fun i => nth i t (CNonFin N).
  Definition btab (t : list (xval N)) : nat -> xval N := fun i => nth i t (NonFin N).
  Definition L (k : kind) (t : list (cval N)) (kk : option (option (T N))) (h : option (T N)) : level N nat :=
    new_level N nat k (ctab t) kk h.
  Definition funcs (base : nat -> xval N) (p : pen N nat) (npts : nat) : list (list (xval N)) :=
    map (fun j => map (fun x => p_func N lg nat base (skipn j p) x) (seq 0 npts)) (seq 0 (length p)).
  Definition errs (p : pen N nat) (npts : nat) : list (list (option (T N))) :=
    map (fun j => map (fun x => p_error N sq nat (skipn j p) x) (seq 0 npts)) (seq 0 (length p)).
  Definition st (p : pen N nat) : list (nat * list (option (T N))) := map (fun l => (ln N nat l, ly N nat l)) p.
  Definition sti (p : pen N nat) : list (list (option (T N))) :=
    map (fun l => let ys := ly N nat l in map (stored N ys) [0%nat; length ys; S (S (length ys))]) p.
  Definition mfun (base : nat -> xval N) (p : pen N nat) : nat -> xval N := p_func N lg nat base p.
  Definition addstack (base : nat -> xval N) (ms : list (nat -> xval N)) : nat -> xval N :=
    fold_left (fun f m => additive N nat m f) ms base.
End H.
Definition all2 {A B} (f : A -> B -> bool) (a : list A) (b : list B) : bool :=
  (Nat.eqb (length a) (length b) && forallb (fun p => f (fst p) (snd p)) (combine a b))%bool.
Definition oeq {A} (f : A -> A -> bool) (a b : option A) : bool :=
  match a, b with Some x, Some y => f x y | None, None => true | _, _ => false end.
(* expected value [e] (from the implementation) against the model's [m]: the model's NonFin stands for any non-finite float *)
Definition xmatch {N} (f : T N -> T N -> bool) (m e : xval N) : bool :=
  match m, e with
  | Fin _ a, Fin _ b => f a b
  | PInf _, PInf _ => true
  | NonFin _, PInf _ => true
  | NonFin _, NonFin _ => true
  | Raises _, Raises _ => true
  | _, _ => false
  end.
Definition fclose (a b : PrimFloat.float) : bool :=
  PrimFloat.leb (PrimFloat.abs (PrimFloat.sub a b))
    (PrimFloat.mul 0x1.12e0be826d695p-30%float (PrimFloat.add 1%float (PrimFloat.abs b))).
Definition qclose (a b : Q) : bool := Qle_bool (Qabs (a - b)) ((1 # 1000000000) * (1 + Qabs b)).
Definition tblF (t : list (PrimFloat.float * PrimFloat.float)) (a : PrimFloat.float) : PrimFloat.float :=
  match find (fun p => PrimFloat.eqb (fst p) a) t with Some p => snd p | None => PrimFloat.nan end.
Definition tblQ (t : list (Q * Q)) (a : Q) : Q :=
  match find (fun p => Qeq_bool (fst p) a) t with Some p => snd p | None => 0 end.
Definition idQ (a : Q) : Q := a.
Definition st_eqQ (a b : list (nat * list (option Q))) : bool :=
  all2 (fun x y => (Nat.eqb (fst x) (fst y) && all2 (oeq Qeq_bool) (snd x) (snd y))%bool) a b.
Definition sti_eqQ (a b : list (list (option Q))) : bool := all2 (all2 (oeq Qeq_bool)) a b.
Definition st_clF (a b : list (nat * list (option PrimFloat.float))) : bool :=
  all2 (fun x y => (Nat.eqb (fst x) (fst y) && all2 (oeq fclose) (snd x) (snd y))%bool) a b.
Definition sti_clF (a b : list (list (option PrimFloat.float))) : bool := all2 (all2 (oeq fclose)) a b.
Definition fun_eqQ (a b : list (list (xval NumQ))) : bool := all2 (all2 (xmatch (N:=NumQ) Qeq_bool)) a b.
Definition fun_clQ (a b : list (list (xval NumQ))) : bool := all2 (all2 (xmatch (N:=NumQ) qclose)) a b.
Definition fun_clF (a b : list (list (xval NumF))) : bool := all2 (all2 (xmatch (N:=NumF) fclose)) a b.
Definition err_clF (a b : list (list (option PrimFloat.float))) : bool := all2 (all2 (oeq fclose)) a b.
"""


class _P:
    """literal printer for one numeric instance"""
    def __init__(self, F):
        self.F = F
        self.N = "NumF" if F else "NumQ"
        self.num = flit if F else qlit
        self.ty = "PrimFloat.float" if F else "Q"

    def cval(self, c):
        if c == "zd":
            return "CZeroDiv %s" % self.N
        if c == math.inf:
            return "CInf %s" % self.N
        if c != c or c == -math.inf:
            return "CNonFin %s" % self.N
        return "CV %s %s" % (self.N, self.num(c))

    def xval(self, v):
        if isinstance(v, dict):
            return "Raises %s" % self.N if v.get("raise") == "ZeroDivisionError" else None
        if v == "inf":
            return "PInf %s" % self.N
        if v in ("nan", "-inf"):
            return "NonFin %s" % self.N
        return "Fin %s %s" % (self.N, self.num(v))

    def onum(self, v):
        """stored entry / error value: inf -> None"""
        if v == "inf":
            return "None"
        if isinstance(v, (dict, str)):
            return None
        return "(Some %s)" % self.num(v)

    def kw_k(self, k):
        if k == "absent":
            return "None"
        if k == "inf":
            return "(Some None)"
        return "(Some (Some %s))" % self.num(k)

    def kw_h(self, h):
        return "None" if h == "absent" else "(Some %s)" % self.num(h)

    def level(self, lv, tab):
        return "(L %s %s (%s : list (cval %s)) %s %s)" % (self.N, COQK[lv["kind"]], lst([self.cval(c) for c in tab]), self.N,
                                                          self.kw_k(lv["k"]), self.kw_h(lv["h"]))

    def pen(self, levels, tabs):
        return "(%s : pen %s nat)" % (lst([self.level(lv, t) for lv, t in zip(levels, tabs)]), self.N)

    def base(self, vals):
        return "(btab %s (%s : list (xval %s)))" % (self.N, lst([self.xval(v) for v in vals]), self.N)

    def script(self, ops):
        o = []
        for op in ops:
            if op[0] == "iter":
                o.append("OpIter nat %s %s" % (natlit(op[1]), opt(op[2], natlit)))
            elif op[0] == "clear":
                o.append("OpClear nat %s" % natlit(op[1]))
            else:
                o.append("OpStore nat %s %s %s" % (natlit(op[1]), natlit(op[2]), opt(op[3], natlit)))
        return "(%s : list (op nat))" % lst(o)

    def lg(self, args):
        """log oracle: table over the arguments -c of the barrier levels"""
        ent = []
        for a in sorted(set(args)):
            ent.append("(%s, %s)" % (self.num(a), self.num(math.log(a))))
        return "(%s (%s : list (%s * %s)))" % ("tblF" if self.F else "tblQ", lst(ent), self.ty, self.ty)


def _log_args(nests_tabs):
    args = []
    for levels, tabs in nests_tabs:
        for lv, tab in zip(levels, tabs):
            if lv["kind"] == "barrier_inequality":
                args += [-c for c in tab if _isnum(c) and c < 0 and c != -math.inf]
    return args


_EXACT_K = {"absent", 0.5, 1, 1.5, 2, 20, 100, "inf", 0, -1}
_EXACT_H = {"absent", 0.5, 1, 1.5, 2, 5, 0}


def _exact_nest(levels, tabs, basevals):
    for lv, tab in zip(levels, tabs):
        if lv["kind"] in ("barrier_inequality", "lagrange_inequality"):
            return False
        if lv["k"] not in _EXACT_K or lv["h"] not in _EXACT_H:
            return False
        for c in tab:
            if _isnum(c) and abs(c) != math.inf and c == c and (abs(c) > 16 or (c * 8) != int(c * 8)):
                return False
    for v in basevals:
        if _isnum(v) and (abs(v) > 64 or (v * 8) != int(v * 8)):
            return False
    return True


def _model(case, obs, F):
    """Gallina text of (final top pen, base function, expected lists) for one instance; None if not expressible"""
    P = _P(F)
    points = case["points"]
    npts = len(points)
    mode = case["mode"]
    nests = []
    mfuncs = []
    for m in case["members"]:
        tabs = _tabs(m, points)
        nests.append((m["levels"], tabs))
    top_levels = case["top"]["levels"] if mode in ("nest", "additive") else None
    if top_levels is not None:
        nests.append((top_levels, _tabs(case["top"], points)))
    largs = _log_args(nests)
    if mode in ("and", "or", "not") and _comb_level(mode, case, obs)["kind"] == "barrier_inequality":
        for pi, pt_ in enumerate(points):
            if mode == "not":
                c = cond_value(case["members"][0]["levels"][0]["cond"], pt_)
                c = None if c == "zd" else 0 - c
            else:
                c = _member_cond(mode, case, obs, pi)
            if _isnum(c) and c < 0 and c != -math.inf:
                largs.append(-c)
    lg = P.lg(largs)
    for m, (lvls, tabs) in zip(case["members"], nests):
        bv = [_enc(base_value(m["base"], p)) for p in points]
        mfuncs.append("(mfun %s %s %s (run %s nat %s %s))" % (P.N, lg, P.base(bv), P.N, P.script(m["pre"]), P.pen(lvls, tabs)))
    if mode == "nest":
        p0 = P.pen(top_levels, nests[-1][1])
        base = P.base([_enc(base_value(case["top"]["base"], p)) for p in points])
    elif mode == "additive":
        p0 = P.pen(top_levels, nests[-1][1])
        base = "(addstack %s %s (%s : list (nat -> xval %s)))" % (
            P.N, P.base([_enc(base_value(case["base"], p)) for p in points]), lst(mfuncs), P.N)
    else:
        s = case["settings"]
        pt = "None" if not s.get("ptype") else "(Some %s)" % COQK[s["ptype"]]
        if "k" not in s:
            kk = "None"
        elif s["k"] is None:
            kk = "(Some None)"
        else:
            kk = "(Some (Some (Some %s)))" % P.num(s["k"])
        hh = P.kw_h(s.get("h", "absent"))
        ml = "(%s : list (nat -> xval %s))" % (lst(mfuncs), P.N)
        if mode == "and":
            p0 = "(pen_and %s nat %s %s %s %s)" % (P.N, ml, pt, kk, hh)
        elif mode == "or":
            p0 = "(pen_or %s nat %s %s %s %s)" % (P.N, ml, pt, kk, hh)
        else:
            m0 = case["members"][0]
            p0 = "(pen_not %s nat %s %s %s %s)" % (P.N, P.level(m0["levels"][0], nests[0][1][0]), pt, kk, hh)
        base = "(zero_base %s nat)" % P.N
    pf = "(run %s nat %s %s)" % (P.N, P.script(case["script"]), p0)
    return P, lg, pf, base, npts


def _is_exact(case):
    if case["mode"] != "nest":
        return False
    points = case["points"]
    top = case["top"]
    return _exact_nest(top["levels"], _tabs(top, points), [base_value(top["base"], p) for p in points])


def coq_terms(case, obs):
    if "__exception__" in obs:
        return []
    T = []
    mode = case["mode"]
    if mode == "as_penalty":
        return _as_penalty_terms(case, obs)
    if not obs["top"]:
        # additive stack without an outer level: only the stacked value
        P, lg, pf, base, npts = _model(case, obs, True)
        exp = [P.xval(v) for v in obs["stack"]]
        if all(e is not None for e in exp):
            T.append("all2 (xmatch (N:=NumF) fclose) (map %s (seq 0 %s)) (%s : list (xval NumF))" % (base, natlit(npts), lst(exp)))
        return T
    # closure state: exact over Q when the stored values are table entries; binary64 within tolerance when they are
    # computed member values (combinators)
    SF = mode in ("and", "or", "not")
    P, lg, pf, base, npts = _model(case, obs, SF)
    st = []
    ok = True
    oty = "(option %s)" % P.ty
    for ob in obs["top"]:
        ys = [P.onum(y) for y in ob["ys"]]
        si = [P.onum(y) for y in ob["stored_i"]]
        if any(y is None for y in ys + si):
            ok = False
            break
        st.append(("(%s, (%s : list %s))" % (natlit(ob["n"]), lst(ys), oty), "(%s : list %s)" % (lst(si), oty)))
    # a combined condition with a nan / -inf member is outside the model (python's min / sum with nan depend on the argument order): when
    # the script stores such a value into the closure, the closure state is outside it as well
    if SF and not _error_modelled(case, obs) and any(o[0] == "store" for o in case.get("script", [])):
        ok = False
    if ok:
        T.append("(%s (st %s %s) %s && %s (sti %s %s) (%s : list (list %s)))%%bool" % (
            "st_clF" if SF else "st_eqQ", P.N, pf, lst([a for a, _ in st]), "sti_clF" if SF else "sti_eqQ", P.N, pf,
            lst([b for _, b in st]), oty))
    # values
    exact = _is_exact(case)
    modelled = _error_modelled(case, obs)
    for F in (((False,) if exact else (True,)) if modelled else ()):
        P, lg, pf, base, npts = _model(case, obs, F)
        rows, okv = [], True
        for ob in obs["top"]:
            r = [P.xval(v) for v in ob["func"]]
            if any(v is None for v in r):
                okv = False
                break
            rows.append("(%s : list (xval %s))" % (lst(r), P.N))
        if okv:
            cmp_ = "fun_eqQ" if (exact and not F) else ("fun_clF" if F else "fun_clQ")
            T.append("%s (funcs %s %s %s %s %s) %s" % (cmp_, P.N, lg, base, pf, natlit(npts), lst(rows)))
    # error(): binary64 with PrimFloat.sqrt, within tolerance
    P, lg, pf, base, npts = _model(case, obs, True)
    rows, oke = [], True
    for j, ob in enumerate(obs["top"]):
        r = [P.onum(v) for v in ob["error"]]
        if any(v is None for v in r):
            oke = False
            break
        rows.append("(%s : list (option PrimFloat.float))" % lst(r))
    if oke and modelled:
        T.append("err_clF (errs NumF PrimFloat.sqrt %s %s) %s" % (pf, natlit(npts), lst(rows)))
    return T


def _error_modelled(case, obs):
    """combined conditions that evaluate to nan / -inf (members returning nan or -inf, `0 - inf` in not_) are outside the
    model: the closure state is still compared, values and error() are not.  A member value +inf that may stem from float
    arithmetic on infinite multipliers (the model only says 'non-finite' there) is treated the same way."""
    if case["mode"] in ("and", "or"):
        for p in range(len(case["points"])):
            if _member_cond(case["mode"], case, obs, p) is None:
                return False
        for m, mo in zip(case["members"], obs["members"]):
            risky = any(lv["kind"] in LAGR or lv["k"] in (0, -1, "inf") or lv["h"] == 0 for lv in m["levels"])
            if risky and any(v == "inf" for v in mo[0]["func"]):
                return False
    if case["mode"] == "not":
        m0 = case["members"][0]["levels"][0]
        kind = _comb_level("not", case, obs)["kind"]
        if kind in INEQ and any(cond_value(m0["cond"], p) == math.inf for p in case["points"]):
            return False
    return True


def _as_penalty_terms(case, obs):
    P = _P(True)
    x = case["points"][0]
    s = case["settings"]
    pt = "None" if not s.get("ptype") else "(Some %s)" % COQK[s["ptype"]]
    kk = P.kw_k(s.get("k", "absent"))
    hh = P.kw_h(s.get("h", "absent"))
    fl = lambda v: "(%s : list PrimFloat.float)" % lst(v, flit)
    p0 = "(as_penalty NumF PrimFloat.sqrt (fun _ => %s) %s %s %s)" % (fl(obs["cx"]), pt, kk, hh)
    ops = []
    for op in case["script"]:
        if op[0] == "iter":
            ops.append("OpIter (list PrimFloat.float) %s %s" % (natlit(op[1]), opt(op[2], natlit)))
        elif op[0] == "clear":
            ops.append("OpClear (list PrimFloat.float) %s" % natlit(op[1]))
        else:
            ops.append("OpStore (list PrimFloat.float) %s %s %s" % (natlit(op[1]), fl(x), opt(op[3], natlit)))
    pf = "(run NumF (list PrimFloat.float) (%s : list (op (list PrimFloat.float))) %s)" % (lst(ops), p0)
    ob = obs["top"][0]
    T = []
    v, e = P.xval(ob["func"][0]), P.onum(ob["error"][0])
    ys = [P.onum(y) for y in ob["ys"]]
    if v is None or e is None or any(y is None for y in ys):
        return T
    T.append("xmatch (N:=NumF) fclose (p_func NumF (fun a => a) (list PrimFloat.float) (zero_base NumF _) %s %s) (%s)" % (pf, fl(x), v))
    T.append("oeq fclose (p_error NumF PrimFloat.sqrt (list PrimFloat.float) %s %s) %s" % (pf, fl(x), e))
    T.append("match %s with [l] => (Nat.eqb (ln NumF _ l) %s && all2 (oeq fclose) (ly NumF _ l) (%s : list (option PrimFloat.float)))%%bool | _ => false end"
             % (pf, natlit(ob["n"]), lst(ys)))
    return T


def coq_debug(case, obs, k):
    if case["mode"] == "as_penalty" or not obs.get("top"):
        return "tt"
    exact = _is_exact(case)
    P, lg, pf, base, npts = _model(case, obs, not exact)
    return "(st %s %s, funcs %s %s %s %s %s, errs NumF PrimFloat.sqrt %s %s)" % (
        P.N, pf, P.N, lg, base, pf, natlit(npts), _model(case, obs, True)[2], natlit(npts))


def classify(case, obs):
    mode = case["mode"]
    tags = ["mode:" + mode]
    nontriv = bool(case.get("script"))
    if mode == "as_penalty":
        tags.append("constraint:" + case["constraint"]["t"])
        return json.dumps(case, sort_keys=True), True, tags
    nests = list(case["members"]) + ([case["top"]] if mode in ("nest", "additive") else [])
    for ns in nests:
        tags.append("depth:%d" % len(ns["levels"]))
        for lv in ns["levels"]:
            tags.append("kind:" + lv["kind"])
            tags.append("cond:" + lv["cond"]["t"])
            if lv["k"] in (0, -1):
                tags.append("boundary:k<=0")
            if lv["h"] == 0:
                tags.append("boundary:h=0")
            if lv["k"] == "inf":
                tags.append("k:inf")
            for p in case["points"]:
                c = cond_value(lv["cond"], p)
                if c == "zd":
                    tags.append("point:zero-division")
                elif c == 0:
                    tags.append("point:on-boundary")
                elif c == math.inf:
                    tags.append("point:cond-inf")
                elif c > 0:
                    tags.append("point:c>0"); nontriv = True
                else:
                    tags.append("point:c<0")
                    if lv["kind"] not in INEQ:
                        nontriv = True
    if "top" in obs and not "__exception__" in obs:
        for ob in obs["top"]:
            tags.append("n:%d" % ob["n"])
            tags.append("stored:%s" % ("empty" if not ob["ys"] else "inf" if "inf" in ob["ys"] else "values"))
            for v in ob["func"]:
                tags.append("value:" + ("raises" if isinstance(v, dict) else v if isinstance(v, str) else "finite"))
    tags.append("compare:" + ("exact-Q" if _is_exact(case) else "binary64-tol"))
    for op in case.get("script", []):
        tags.append("op:%s@%d" % (op[0], op[1]))
    return json.dumps(case, sort_keys=True), nontriv, tags


def shrink(case):
    mode = case["mode"]
    if case.get("script"):
        for i in range(len(case["script"])):
            yield dict(case, script=case["script"][:i] + case["script"][i + 1:])
    if len(case["points"]) > 1 and mode != "as_penalty":
        for i in range(len(case["points"])):
            pts = case["points"][:i] + case["points"][i + 1:]
            def fix(ops):
                return [op for op in ops if op[0] != "store" or op[2] < len(pts)]
            c = dict(case, points=pts, script=fix(case.get("script", [])))
            if case.get("members"):
                c["members"] = [dict(m, pre=fix(m["pre"])) for m in case["members"]]
            if i == len(case["points"]) - 1:
                yield c
    if mode == "nest" and len(case["top"]["levels"]) > 1:
        lv = case["top"]["levels"]
        for i in range(len(lv)):
            top = dict(case["top"], levels=lv[:i] + lv[i + 1:])
            sc = []
            for op in case["script"]:
                if op[1] > i or (op[1] == i and i == len(lv) - 1):
                    op = [op[0], max(0, op[1] - 1)] + list(op[2:])
                sc.append(op)
            yield dict(case, top=top, script=sc)
    if mode in ("and", "or", "additive") and len(case["members"]) > 1:
        for i in range(len(case["members"])):
            yield dict(case, members=case["members"][:i] + case["members"][i + 1:])
    if case.get("members"):
        for i, m in enumerate(case["members"]):
            if m["pre"]:
                ms = list(case["members"]); ms[i] = dict(m, pre=m["pre"][:-1])
                yield dict(case, members=ms)
