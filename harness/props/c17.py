"""C17 - constraint combinators and_/or_/not_ (mystic.constraints), function couplers and penalty combinators
(mystic.coupler).  Model: coq/Pure/Combinators.v; theorems: coq/Props/Properties_C17.v."""
import json, math, random as _pyrandom

from harness.coqio import flit, natlit, zlit, lst

ID = "C17"
TITLE = "Combinators claim success only at a fixed point; couplers compose as documented"
PROPS_FILE = "Props/Properties_C17.v"
LEVEL = "proof"
SIZES = {"quick": 5000, "thorough": 60000}
PARALLEL = True
SHARD = 200
COQ_TIMEOUT = 900
RULE = ("cases: kind in {and, or, not, coupler, penalty}; member constraints are sequences of primitive operations with exact "
        "Gallina twins (clamp lo/hi, pin, round-to-grid, affine tie, shift, scale, swap, negate, drop-last, jump a->b, conditional/unconditional "
        "raise of ZeroDivisionError/TypeError/ValueError/re-raised TypeError); member sets compatible / conflicting / cyclic / escape / raising / "
        "mixed, n = 0..4 members, maxiter in {0..6, default 100}, vectors of length 0..4 on the grid k/2 (lists of floats, lists of "
        "ints, float and int ndarrays); the generator draws (random.randint / random.random) are recorded from outside (real "
        "Mersenne-Twister draws or a coarse scripted stream with u in {0, 1/4, 1/2, 3/4, 1-2^-53}); non-trivial = the combinator "
        "entered its cycling loop, or (coupler/penalty) at least two members; distinct = distinct case JSON")
TRUSTED = ["binary64 arithmetic of the model is Coq's PrimFloat evaluated by vm_compute (bit-exact against CPython/numpy on the "
           "generated cases; used for execution only, no float axiom enters a theorem)",
           "random.randint/random.random are observed by patching the `random` module's attributes from outside while the "
           "combinator runs; the recorded stream is what the model consumes"]
ASSUMPTIONS = ["member constraints are deterministic functions of their argument; NaN components are excluded (list equality on NaN "
               "depends on object identity in Python)",
               "and_'s fixed-point theorem assumes member idempotence c(c(x)) == c(x) (the convention for mystic constraints); the oracle "
               "applies that clause only to member sets that are idempotent by construction and re-checks idempotence on the visited points",
               "float rounding in the penalty theorems (proved over Q): modelled, not verified",
               "tuple inputs, members returning ndarrays to not_ (ambiguous truth value), barrier/lagrange penalty types are not modelled"]
META = dict(
    technique="Coq proof (loop invariants over all member sets, inputs, iteration caps and draw streams) + model/implementation "
              "correspondence by vm_compute on PrimFloat",
    level_text=("and_/or_/not_ are modelled line by line (history list, window of the last n, cycle position, del x[:n] every 2n, "
                "randomisation, skip counter, maxiter*n cap, swallowed/re-raised exceptions).  Theorems for all member sets, inputs, caps "
                "and draw streams: and_ success => every (idempotent) member maps the result to an equal vector, "
                "or_ success => some member fixes it, not_ success => the member changes it, "
                "outcome is exhaustively success/failure (no IndexError; re-raise only if a member re-raises), coupler equations, penalty "
                "and_/or_/not_ zero-set characterisations over Q.  The model is tied to /repo by running both on generated cases every run "
                "(returned vector, which of onexit/onfail fired, number and kind of random draws)."),
    level_note=("Trusted: Coq kernel+VM, harness generators/printers/oracles, the Python twins of the member families. Float rounding in "
                "penalty algebra modelled (Q), not verified."),
    design_ref="5/C17")

M52 = 4503599627370496.0
KINDS = {0: ("ZeroDivisionError", "division by zero"), 1: ("TypeError", "bad operand"), 2: ("ValueError", "bad value"),
         3: ("TypeError", "not supported between instances")}
IDEM_OPS = ("clamplo", "clamphi", "pin", "round", "tie", "jump")
DEFAULT_MAXITER = 100


# ------------------------------------------------------------------ member families (twins of Combinators.v apply_op)

def _rint(v):
    return (v - M52) + M52 if v < 0 else (v + M52) - M52


def _raise(kind):
    name, msg = KINDS[kind]
    raise {"ZeroDivisionError": ZeroDivisionError, "TypeError": TypeError, "ValueError": ValueError}[name](msg)


def _apply_op(op, x):
    name = op[0]
    n = len(x)
    if name == "clamplo":
        i, c = op[1], op[2]
        if i < n: x[i] = max(x[i], c)
    elif name == "clamphi":
        i, c = op[1], op[2]
        if i < n: x[i] = min(x[i], c)
    elif name == "pin":
        i, c = op[1], op[2]
        if i < n: x[i] = c
    elif name == "round":
        i, m = op[1], op[2]
        if i < n: x[i] = _rint(x[i] * m) / m
    elif name == "tie":
        i, j, c = op[1], op[2], op[3]
        if i < n and j < n: x[i] = x[j] + c
    elif name == "shift":
        i, c = op[1], op[2]
        if i < n: x[i] = x[i] + c
    elif name == "scale":
        i, c = op[1], op[2]
        if i < n: x[i] = x[i] * c
    elif name == "swap":
        i, j = op[1], op[2]
        if i < n and j < n:
            a, b = x[i], x[j]
            x[i] = b
            x[j] = a
    elif name == "neg":
        i = op[1]
        if i < n: x[i] = -x[i]
    elif name == "droplast":
        x = x[:-1]
    elif name == "jump":
        i, a, b = op[1], op[2], op[3]
        if i < n and x[i] == a: x[i] = b
    elif name == "raiseifle":
        kind, i, c = op[1], op[2], op[3]
        if i < n and x[i] <= c: _raise(kind)
    elif name == "raiseifeq":
        kind, i, c = op[1], op[2], op[3]
        if i < n and x[i] == c: _raise(kind)
    elif name == "raise":
        _raise(op[1])
    else:
        raise AssertionError(name)
    return x


def make_member(spec):
    ops, ret = spec["ops"], spec.get("ret", "list")
    def member(x):
        # "inplace": update the argument itself and hand it back (what the solvers generated from symbolic constraints do)
        y = x if (ret == "inplace" and type(x) is list) else list(x)
        for op in ops:
            y = _apply_op(op, y)
        if ret == "array":
            import numpy as np
            return np.array(y, dtype=float)
        return y
    member.__doc__ = None
    return member


def member_idempotent(spec):
    """idempotent by construction (c(x) = v  =>  c(v) = v): only projection-type ops, every coordinate written by one op
    (or by clamps only), tie sources never written; raise-checks only AFTER all writing ops (they then see the same
    vector when the member is applied to its own result)"""
    written, sources = {}, set()
    ops = list(spec["ops"])
    while ops and ops[-1][0].startswith("raise"):
        ops.pop()
    for op in ops:
        if op[0] not in IDEM_OPS:
            return False
        written.setdefault(op[1], []).append(op[0])
        if op[0] == "tie":
            sources.add(op[2])
            if op[1] == op[2]:
                return False
        if op[0] == "jump" and op[2] == op[3]:
            return False
    for i, names in written.items():
        if len(names) > 1 and not all(nm in ("clamplo", "clamphi") for nm in names):
            return False
    return not (sources & set(written))


def member_may_raise(spec):
    return any(op[0].startswith("raise") for op in spec["ops"])


def _call(member, x):
    """('val', list) | ('raise', kindname, msg)"""
    try:
        r = member(list(x))
        return ("val", [float(v) for v in (r.tolist() if hasattr(r, "tolist") else r)])
    except (ZeroDivisionError, TypeError, ValueError) as e:
        return ("raise", type(e).__name__, str(e))


# ------------------------------------------------------------------ generation

def _g(rng, lo=-6, hi=6):
    return rng.randint(lo, hi) / 2.0


def _idx(rng, ln):
    return rng.randrange(max(1, ln)) if rng.random() < 0.93 else ln  # occasionally out of range (guarded no-op)


def _rand_op(rng, ln, pool):
    name = rng.choice(pool)
    i = _idx(rng, ln)
    if name in ("clamplo", "clamphi", "pin"):
        return [name, i, _g(rng, -4, 4)]
    if name == "round":
        return [name, i, rng.choice([1.0, 2.0, 4.0, 0.5])]
    if name == "tie":
        j = _idx(rng, ln)
        if j == i: j = (i + 1) % max(1, ln)
        return [name, i, j, _g(rng, -2, 2)]
    if name == "shift":     # (2**-30: a change far below any "close enough" tolerance, but a change)
        return [name, i, rng.choice([1.0, -1.0, 0.5, -0.5, 0.0, 2.0 ** -30, -2.0 ** -30])]
    if name == "scale":
        return [name, i, rng.choice([0.5, 2.0, -1.0, 0.0, 1.0, 1.0 + 2.0 ** -30])]
    if name == "swap":
        return [name, i, _idx(rng, ln)]
    if name == "neg":
        return [name, i]
    if name == "droplast":
        return [name]
    if name == "jump":
        a = _g(rng, -3, 3)
        return [name, i, a, a + rng.choice([-1.0, -0.5, 0.5, 1.0, 2.0])]
    if name in ("raiseifle", "raiseifeq"):
        return [name, rng.choice([0, 0, 0, 1, 2, 3]), i, _g(rng, -3, 3)]
    if name == "raise":
        return [name, rng.choice([0, 0, 1, 2, 3])]
    raise AssertionError(name)


def _member_set(rng, n, ln):
    cat = rng.choice(["compatible", "compatible", "conflicting", "conflicting", "cyclic", "cyclic", "raising", "raising", "mixed",
                      "escape", "escape"])
    ms = []
    if cat == "compatible":
        lo = [_g(rng, -4, 0) for _ in range(max(1, ln))]
        hi = [l + rng.choice([0.0, 0.5, 1.0, 3.0]) for l in lo]
        for k in range(n):
            ops = []
            for _ in range(rng.choice([1, 1, 2])):
                i = rng.randrange(max(1, ln))
                t = rng.choice(["clamplo", "clamphi", "round", "pin", "tie", "id"])
                if t == "clamplo": ops.append([t, i, lo[i]])
                elif t == "clamphi": ops.append([t, i, hi[i]])
                elif t == "round": ops.append([t, i, rng.choice([1.0, 2.0])])
                elif t == "pin": ops.append([t, i, lo[i]])
                elif t == "tie" and ln >= 2:
                    j = (i + 1 + rng.randrange(ln - 1)) % ln
                    ops.append([t, max(i, j), min(i, j), rng.choice([0.0, 0.5, 1.0])])
            ms.append(dict(ops=ops))
    elif cat == "conflicting":
        i = rng.randrange(max(1, ln))
        a = _g(rng, -2, 2)
        gap = rng.choice([0.5, 1.0, 2.0])
        style = rng.choice(["clamps", "pins", "ties", "clamp-pin"])
        for k in range(n):
            if style == "clamps":
                ops = [["clamplo", i, a + gap]] if k % 2 == 0 else [["clamphi", i, a]]
            elif style == "pins":
                ops = [["pin", i, a + (k % 2) * gap]]
            elif style == "ties" and ln >= 2:
                ops = [["tie", 0, 1, gap]] if k % 2 == 0 else [["tie", 1, 0, gap]]
            else:
                ops = [["clamplo", i, a + gap]] if k % 2 == 0 else [["pin", i, a]]
            if rng.random() < 0.25:
                ops.append(_rand_op(rng, ln, ["clamplo", "clamphi", "round"]))
            ms.append(dict(ops=ops))
    elif cat == "cyclic":
        style = rng.choice(["shift", "neg", "swap", "scale", "mixed"])
        i = rng.randrange(max(1, ln))
        for k in range(n):
            if style == "shift":
                ops = [["shift", i, 1.0 if k % 2 == 0 else -1.0]]
            elif style == "neg":
                ops = [["neg", i]]
            elif style == "swap":
                ops = [["swap", 0, max(0, ln - 1)]]
            elif style == "scale":
                ops = [["scale", i, 2.0 if k % 2 == 0 else 0.5]]
            else:
                ops = [_rand_op(rng, ln, ["shift", "neg", "swap", "scale", "clamplo", "pin"])]
            ms.append(dict(ops=ops))
    elif cat == "escape":
        # idempotent members whose common fixed points exist but are not reached by cycling: a clamp pushes onto a value
        # that another member moves away again; only the randomisation can leave the cycle
        i = rng.randrange(max(1, ln))
        a = _g(rng, -2, 2)
        gap = rng.choice([0.5, 1.0, 1.0, 2.0])
        up = rng.random() < 0.6
        for k in range(n):
            if k % 2 == 0:
                ops = [["clamplo", i, a]] if up else [["clamphi", i, a]]
            else:
                ops = [["jump", i, a, a - gap if up else a + gap]]
            if rng.random() < 0.2:
                ops.append(_rand_op(rng, ln, ["round", "clamplo", "clamphi"]))
            ms.append(dict(ops=ops))
    elif cat == "raising":
        for k in range(n):
            ops = [_rand_op(rng, ln, ["clamplo", "clamphi", "pin", "round", "shift"]) for _ in range(rng.choice([0, 1, 1]))]
            if rng.random() < 0.6:
                r = _rand_op(rng, ln, ["raiseifle", "raiseifeq", "raiseifeq", "raise"])
                # make conditional raises hit: use a bound some other op produces
                if r[0] != "raise" and ops and len(ops[0]) == 3 and rng.random() < 0.6:
                    r[2], r[3] = ops[0][1], ops[0][2]
                if rng.random() < 0.7:
                    ops.append(r)        # check after the writes: the member stays idempotent
                else:
                    ops.insert(rng.randrange(len(ops) + 1), r)
            ms.append(dict(ops=ops))
    else:
        pool = ["clamplo", "clamphi", "pin", "round", "tie", "shift", "scale", "swap", "neg", "raiseifeq", "raiseifle", "droplast", "jump"]
        for k in range(n):
            ms.append(dict(ops=[_rand_op(rng, ln, pool) for _ in range(rng.choice([0, 1, 1, 2, 3]))]))
    for m in ms:
        r = rng.random()
        m["ret"] = "array" if r < 0.15 else "inplace" if r < 0.4 else "list"
    return cat, ms


def _gen_comb(rng, tier):
    kind = rng.choice(["and", "and", "and", "or", "or", "not"])
    ln = rng.choice([0, 1, 1, 1, 2, 2, 3, 4])
    n = 1 if kind == "not" else rng.choice([0, 1, 2, 2, 2, 3, 3, 4])
    cat, ms = _member_set(rng, n, ln)
    xkind = rng.choice(["list", "list", "list", "intlist", "array", "intarray"])
    if xkind in ("list", "array"):
        x = [_g(rng) for _ in range(ln)]
    else:
        x = [rng.randint(-3, 3) for _ in range(ln)]
    if kind == "not":
        for m in ms:
            m["ret"] = "list"
            if xkind in ("array", "intarray"):   # list != ndarray of another length: numpy broadcasting, not modelled
                m["ops"] = [o for o in m["ops"] if o[0] != "droplast"]
    maxiter = rng.choice([None, None, 0, 1, 2, 2, 3, 4, 5, 6])
    if tier == "thorough" and rng.random() < 0.03:
        maxiter = rng.choice([10, 20, 37])
    draws = rng.choice(["real", "real", "coarse", "coarse", "zero-u", "zero-z"])
    c = dict(kind=kind, members=ms, cat=cat, x=x, xkind=xkind, maxiter=maxiter, draws=draws, dseed=rng.randrange(10 ** 9))
    if rng.random() < 0.35:
        # the SAME combined constraint object is called again on further inputs: every call must behave like a first call
        c["more"] = [[_g(rng) for _ in range(ln)] if xkind in ("list", "array") else [rng.randint(-3, 3) for _ in range(ln)]
                     for _ in range(rng.choice([1, 2, 3]))]
    return c


def _vecfun(rng, ln):
    pool = ["clamplo", "clamphi", "pin", "round", "tie", "shift", "scale", "swap", "neg"]
    return [_rand_op(rng, ln, pool) for _ in range(rng.choice([0, 1, 2]))]


def _gen_coupler(rng):
    ln = rng.choice([0, 1, 2, 3, 4])
    which = rng.choice(["inner", "inner", "outer", "outer", "inner_proxy", "outer_proxy", "additive", "additive", "additive_proxy"])
    x = [_g(rng) for _ in range(ln)]
    w = lambda: [_g(rng, -4, 4) for _ in range(ln)]
    d = dict(kind="coupler", which=which, x=x, xkind=rng.choice(["list", "array"]),
             a=rng.choice([None, 0.5, -1.0, 2.0, 0.0]), b=rng.choice([None, 0.25, -2.0, 1.0]))
    if which in ("inner", "inner_proxy"):
        d.update(c=dict(t="vec", ops=_vecfun(rng, ln)), f=rng.choice([dict(t="lin", w=w()), dict(t="vec", ops=_vecfun(rng, ln))]))
    elif which in ("outer", "outer_proxy"):
        d.update(c=dict(t="vec", ops=_vecfun(rng, ln)), f=dict(t="vec", ops=_vecfun(rng, ln)))
    else:
        d.update(c=dict(t="lin", w=w()), f=dict(t="lin", w=w()))
    return d


PT_NAMES = ["linear_equality", "quadratic_equality", "uniform_equality", "linear_inequality", "quadratic_inequality",
            "uniform_inequality"]


def _gen_cond(rng, ln):
    i = rng.randrange(max(1, ln))
    return [rng.choice(["lin", "lin", "rlin", "sq"]), i, rng.randint(-8, 8) / 4.0]


def _gen_penalty(rng):
    ln = rng.choice([1, 1, 2, 3])
    which = rng.choice(["and", "and", "or", "or", "not", "not"])
    x = [rng.randint(-8, 8) / 4.0 for _ in range(ln)]
    mk = lambda: dict(pt=rng.choice(PT_NAMES), k=rng.choice([1, 1, 2, 100, 0.5]), cond=_gen_cond(rng, ln))
    d = dict(kind="penalty", which=which, x=x, xkind=rng.choice(["list", "array"]))
    if which == "not":
        d["member"] = mk() if rng.random() < 0.8 else dict(pt=None, k=None, cond=_gen_cond(rng, ln))  # raw condition
        d["ptype"] = rng.choice([None, None, None] + PT_NAMES)
        d["k"] = rng.choice([None, None, 2, 0.5])
        # make the boundary cond(x) == 0 and the interior frequent
        if rng.random() < 0.4:
            c = d["member"]["cond"]
            if c[0] in ("lin", "rlin") and c[1] < ln:
                x[c[1]] = c[2]
    else:
        d["members"] = [mk() for _ in range(rng.choice([0, 1, 2, 2, 3, 4]))]
        for m in d["members"]:
            if rng.random() < 0.35:
                m["plain"] = True
        d["ptype"] = rng.choice([None, None] + PT_NAMES)
        d["k"] = rng.choice([None, None, 1, 3, 0.25])
        if rng.random() < 0.5:   # make zero member penalties frequent
            for m in d["members"]:
                c = m["cond"]
                if c[0] in ("lin", "rlin") and c[1] < ln and rng.random() < 0.7:
                    c[2] = x[c[1]]
    return d


def _boundary_cases():
    """fixed cases replayed on every run: the pre-repair false success, the raising-member window, first-pass edge cases"""
    mk = lambda *ops: dict(ops=[list(o) for o in ops], ret="list")
    out = []
    for seed in range(6):
        out.append(dict(kind="and", members=[mk(("clamplo", 0, 1.0)), mk(("clamphi", 0, 0.0))], cat="conflicting", x=[0.5],
                        xkind="list", maxiter=None, draws=["real", "coarse", "zero-u", "zero-z", "real", "coarse"][seed], dseed=seed))
    out.append(dict(kind="and", members=[mk(), mk(("raiseifeq", 0, 0, 1.0))], cat="raising", x=[1.0], xkind="list",
                    maxiter=None, draws="real", dseed=1))
    out.append(dict(kind="and", members=[mk(("raiseifeq", 0, 0, 1.0)), mk()], cat="raising", x=[1.0], xkind="list",
                    maxiter=None, draws="real", dseed=1))
    out.append(dict(kind="and", members=[mk(), mk(), mk(("raiseifeq", 1, 0, 1.0))], cat="raising", x=[1.0], xkind="list",
                    maxiter=3, draws="coarse", dseed=2))
    for kind in ("and", "or"):
        out.append(dict(kind=kind, members=[], cat="compatible", x=[1.0, 2.0], xkind="list", maxiter=None, draws="real", dseed=0))
        out.append(dict(kind=kind, members=[mk(("shift", 0, 1.0))], cat="cyclic", x=[1.0], xkind="array", maxiter=0, draws="real", dseed=0))
        out.append(dict(kind=kind, members=[mk(("shift", 0, 1.0)), mk(("shift", 0, -1.0))], cat="cyclic", x=[1.0], xkind="list",
                        maxiter=None, draws="real", dseed=3))
        out.append(dict(kind=kind, members=[mk(("raise", 3))], cat="raising", x=[1.0], xkind="list", maxiter=2, draws="real", dseed=0))
    out.append(dict(kind="not", members=[mk(("clamplo", 0, 0.0))], cat="compatible", x=[1.0, 2.0], xkind="array", maxiter=3,
                    draws="real", dseed=5))
    out.append(dict(kind="not", members=[mk(("shift", 0, 1.0))], cat="cyclic", x=[1.0, 2.0], xkind="array", maxiter=3,
                    draws="real", dseed=5))
    out.append(dict(kind="not", members=[mk()], cat="compatible", x=[], xkind="array", maxiter=2, draws="real", dseed=5))
    return out


def generate(rng, n, tier):
    for c in _boundary_cases():
        yield c
    for i in range(n):
        r = rng.random()
        if r < 0.78:
            yield _gen_comb(rng, tier)
        elif r < 0.88:
            yield _gen_coupler(rng)
        else:
            yield _gen_penalty(rng)


# ------------------------------------------------------------------ driving /repo

class _Draws(object):
    """replaces random.randint / random.random while a combinator runs; records every call"""
    def __init__(self, mode, seed):
        self.r = _pyrandom.Random(seed)
        self.mode = mode
        self.log = []

    def randint(self, a, b):
        if self.mode == "zero-z" and a <= 0 <= b:
            v = 0
        else:
            v = self.r.randint(a, b)
        self.log.append(["randint", a, b, v])
        return v

    def random(self):
        if self.mode == "real":
            v = self.r.random()
        elif self.mode == "zero-u":
            v = 0.0
        else:
            v = self.r.choice([0.0, 0.25, 0.5, 0.5, 0.75, 1.0, 1.0 - 2.0 ** -53])
            if v == 1.0:
                v = self.r.random()
        self.log.append(["random", v])
        return v


def _input(case):
    import numpy as np
    xk = case.get("xkind", "list")
    if xk == "array": return np.array(case["x"], dtype=float)
    if xk == "intarray": return np.array(case["x"], dtype=int)
    return list(case["x"])


def _fl(v):
    return [float(t) for t in (v.tolist() if hasattr(v, "tolist") else v)]


def _run_comb(case):
    import random as rnd
    from mystic import constraints as C
    ncalls = [0]
    def counted(f):
        def g(x):
            ncalls[0] += 1
            return f(x)
        g.__doc__ = None
        return g
    members = [counted(make_member(m)) for m in case["members"]]
    fired = []
    def onexit(x):
        fired.append(["exit", _fl(x)]); return x
    def onfail(x):
        fired.append(["fail", _fl(x)]); return x
    kw = dict(onexit=onexit, onfail=onfail)
    if case["maxiter"] is not None:
        kw["maxiter"] = case["maxiter"]
    if case["kind"] == "and": comb = C.and_(*members, **kw)
    elif case["kind"] == "or": comb = C.or_(*members, **kw)
    else: comb = C.not_(members[0], **kw)
    def one(xs, k):
        d = _Draws(case["draws"], case["dseed"] + k)
        x = _input(dict(case, x=xs))
        x_before = _fl(x)
        del fired[:]; ncalls[0] = 0
        saved = (rnd.randint, rnd.random)
        rnd.randint, rnd.random = d.randint, d.random
        out = dict()
        try:
            try:
                res = comb(x)
                out["result"] = _fl(res)
            except (ZeroDivisionError, TypeError, ValueError, IndexError) as e:
                out["raised"] = type(e).__name__
        finally:
            rnd.randint, rnd.random = saved
        out["fired"] = list(fired)
        out["draws"] = d.log
        out["calls"] = ncalls[0]
        out["input_unchanged"] = (_fl(x) == x_before)
        return out
    out = one(case["x"], 0)
    if case.get("more"):
        out["more"] = [one(xs, k + 1) for k, xs in enumerate(case["more"])]
    return out


def _lin(w, x, t):
    s = t
    for wi, xi in zip(w, x):
        s = s + wi * xi
    return s


def _mk_fun(spec):
    """functions with one optional extra argument (default 0.0)"""
    if spec["t"] == "lin":
        w = spec["w"]
        return lambda x, t=0.0: _lin(w, x, t)
    ops = spec["ops"]
    def vf(x, t=0.0):
        y = list(x)
        for op in ops:
            y = _apply_op(op, y)
        return [v + t for v in y]
    return vf


def _run_coupler(case):
    from mystic import coupler as K
    c, f = _mk_fun(case["c"]), _mk_fun(case["f"])
    a, b = case["a"], case["b"]
    args = None if a is None else (a,)
    dec = getattr(K, case["which"])(c, args=args)
    g = dec(f)
    # the same coupler object decorates another function afterwards: the first decorated function keeps its own
    other = (lambda x, *a_: [99.0 for _ in x]) if case["which"] in ("outer", "outer_proxy") else (lambda x, *a_: 12345.0)
    try:
        dec(other)
    except Exception:
        pass
    x = _input(case)
    r = g(x) if b is None else g(x, b)
    out = dict(value=_fl(r) if isinstance(r, list) else float(r))
    return out


def _cond(spec):
    t, i, c = spec
    if t == "lin": return lambda x: x[i] - c
    if t == "rlin": return lambda x: c - x[i]
    return lambda x: x[i] * x[i] - c


def _mk_pen(m):
    import mystic.penalty as P
    cond = _cond(m["cond"])
    if m["pt"] is None:
        return cond
    pen = getattr(P, m["pt"])(cond, k=m["k"])(lambda x: 0.)
    if m.get("plain"):
        # a user-written penalty: a plain function without the attributes (ptype, iter, ...) of a mystic.penalty, same values
        def plain(x, _p=pen):
            return _p(x)
        return plain
    return pen


def _run_penalty(case):
    import mystic.penalty as P
    from mystic import coupler as K
    kw = {}
    if case["ptype"] is not None: kw["ptype"] = getattr(P, case["ptype"])
    if case["k"] is not None: kw["k"] = case["k"]
    x = _input(case)
    out = {}
    try:
        if case["which"] == "not":
            p = _mk_pen(case["member"])
            out["value"] = float(K.not_(p, **kw)(x))
            out["cond"] = float(_cond(case["member"]["cond"])(x))
        else:
            ps = [_mk_pen(m) for m in case["members"]]
            comb = (K.and_ if case["which"] == "and" else K.or_)(*ps, **kw)
            out["members"] = [float(p(x)) for p in ps]
            out["value"] = float(comb(x))
    except ValueError as e:
        out["raised"] = "ValueError"
    return out


def run_impl(case):
    k = case["kind"]
    if k in ("and", "or", "not"):
        return _run_comb(case)
    if k == "coupler":
        return _run_coupler(case)
    if k == "penalty":
        return _run_penalty(case)
    raise ValueError(k)


# ------------------------------------------------------------------ oracle (the property, stated on the implementation)

def _fail(clause, site, pattern, detail):
    return dict(clause=clause, site=site, pattern=pattern, detail=detail)


def _swallowed(res):
    """would the combinators swallow this exception?  (the test as written in constraints.py)"""
    if res[1] == "ZeroDivisionError":
        return True
    msg = res[2]
    return bool(msg.find('not supported') and msg.rfind("'complex'"))


def _oracle_comb(case, obs):
    out = []
    kind = case["kind"]
    site = "constraints.%s_" % kind
    specs = case["members"]
    members = [make_member(dict(m, ret="list")) for m in specs]
    fired = obs["fired"]
    can_reraise = any(op[0].startswith("raise") and op[1] == 3 for m in specs for op in m["ops"])
    # ---- bounded iterations: at most maxiter*n member calls (and_/or_: never fewer than the first pass allows), maxiter for not_
    mi = DEFAULT_MAXITER if case["maxiter"] is None else case["maxiter"]
    bound = mi if kind == "not" else max(len(specs), mi * len(specs))
    if obs.get("calls", 0) > bound:
        out.append(_fail("bounded_iterations", site, "more-member-calls-than-the-cap", [obs.get("calls"), bound]))
    # ---- exhaustive outcome: exactly one of onexit/onfail, unless a member's exception is re-raised
    if "raised" in obs:
        if not (can_reraise and obs["raised"] == "TypeError" and not fired):
            out.append(_fail("failure_otherwise", site, "escaped-" + obs["raised"], obs))
        return out
    if len(fired) != 1:
        out.append(_fail("failure_otherwise", site, "paths-fired-%d" % len(fired), fired))
        return out
    path, r = fired[0]
    if obs["result"] != r:
        out.append(_fail("returns_path_value", site, "result-differs-from-hook-argument", [obs["result"], r]))
    if not obs.get("input_unchanged", True):
        out.append(_fail("input_unchanged", site, "caller-vector-mutated", None))
    # ---- draws: only the documented kinds
    for d in obs["draws"]:
        if kind == "or":
            ok = d[0] == "randint" and d[1] == 1 and d[2] == len(specs)
        else:
            ok = d[0] == "random" or (d[0] == "randint" and d[1] == -1 and d[2] == 1)
        if not ok:
            out.append(_fail("draw_kinds", site, "unexpected-draw", d)); break
    if path != "exit":
        return out
    # ---- success clauses
    res = [_call(m, r) for m in members]
    fixes = [q[0] == "val" and q[1] == r for q in res]
    if kind == "and":
        if all(member_idempotent(m) for m in specs):
            # idempotence re-checked where it is used
            for m, q in zip(members, res):
                if q[0] == "val" and _call(m, q[1]) != q:
                    out.append(_fail("harness", "harness", "family-not-idempotent", [q, _call(m, q[1])]))
            raising = [i for i, q in enumerate(res) if q[0] == "raise"]
            bad = [i for i, ok in enumerate(fixes) if not ok]
            if raising:
                out.append(_fail("and_success_fixed_by_all", site, "success-on-vector-where-member-raises",
                                 dict(result=r, member=raising[0], raises=res[raising[0]][1])))
            elif bad:
                out.append(_fail("and_success_fixed_by_all", site, "success-not-a-fixed-point",
                                 dict(result=r, member=bad[0], gives=res[bad[0]])))
    elif kind == "or":
        if not any(fixes):
            out.append(_fail("or_success_fixed_by_some", site, "success-no-member-fixes", dict(result=r, members=res)))
    else:
        q = res[0]
        if not (q[0] == "val" and q[1] != r):
            out.append(_fail("not_success_changed", site, "success-but-unchanged", dict(result=r, member=q)))
    return out


def _oracle_coupler(case, obs):
    c, f = _mk_fun(case["c"]), _mk_fun(case["f"])
    a = 0.0 if case["a"] is None else case["a"]
    b = 0.0 if case["b"] is None else case["b"]
    x = list(case["x"])
    w = case["which"]
    if w == "inner": exp = f(c(x, a), b)
    elif w == "outer": exp = c(f(x, b), a)
    elif w == "inner_proxy": exp = f(c(x, b), a)
    elif w == "outer_proxy": exp = c(f(x, a), b)
    elif w == "additive": exp = f(x, b) + c(x, a)
    else: exp = f(x, a) + c(x, b)
    exp = [float(v) for v in exp] if isinstance(exp, list) else float(exp)
    if exp != obs["value"]:
        return [_fail(w + "_equation", "coupler." + w, "composition", [obs["value"], exp])]
    return []


def _oracle_penalty(case, obs):
    w = case["which"]
    site = "coupler.%s_" % w
    if "raised" in obs:
        if w == "or" and not case["members"]:
            return []     # min() of an empty sequence
        return [_fail("penalty_no_crash", site, "raised-" + obs["raised"], obs)]
    if w == "not":
        pt = case["ptype"] or case["member"]["pt"] or "linear_equality"
        c = obs["cond"]
        expect_pen = (c < 0) if pt.endswith("_inequality") else (c == 0)
        if (obs["value"] != 0) != expect_pen:
            return [_fail("pen_not_penalises_interior", site, "zero-set", [obs, pt])]
        return []
    ms = obs["members"]
    if any(m < 0 for m in ms):
        return [_fail("harness", "harness", "negative-member-penalty", ms)]
    zero = all(m == 0 for m in ms) if w == "and" else any(m == 0 for m in ms)
    if (obs["value"] == 0) != zero:
        return [_fail("pen_%s_zero_iff" % w, site, "zero-set", obs)]
    return []


def oracle(case, obs):
    if "__exception__" in obs:
        return [_fail("no-crash", "harness-or-" + case["kind"], obs["__exception__"], obs.get("__msg__"))]
    k = case["kind"]
    if k in ("and", "or", "not"):
        f = _oracle_comb(case, obs)
        for j, (xs, o) in enumerate(zip(case.get("more", []), obs.get("more", []))):
            for q in _oracle_comb(dict(case, x=xs), o):
                q = dict(q); q["detail"] = dict(call=j + 2, x=xs, detail=q.get("detail")); f.append(q)
        return f
    if k == "coupler":
        return _oracle_coupler(case, obs)
    return _oracle_penalty(case, obs)


# ------------------------------------------------------------------ Coq side

def coq_preamble():
    return r"""
From Coq Require Import PrimFloat.
From MV Require Import Common.Num Pure.Combinators.
Definition zu_of (l : list (Z * float)) : nat -> Z * float := fun i => nth i l (0%Z, 0%float).
Definition zs_of (l : list Z) : nat -> Z := fun i => nth i l 0%Z.
Definition FV := list float.
(* kind: 0 success (onexit), 1 failure (onfail), 2 a member's exception escaped *)
Definition check_out (r : outcome FV * nat) (kind : nat) (v : FV) (k : nat) : bool :=
  (match fst r with
   | Success w => Nat.eqb kind 0 && flist_eq w v
   | Failure w => Nat.eqb kind 1 && flist_eq w v
   | Raised => Nat.eqb kind 2
   | _ => false end && Nat.eqb (snd r) k)%bool.
Definition unval (r : mres FV) : FV := match r with Val v => v | _ => nil end.
Definition vecf (ops : list op) (x : FV) (t : float) : FV := map (fun v => PrimFloat.add v t) (unval (apply_ops ops x)).
Definition linf (w : FV) (x : FV) (t : float) : float :=
  fold_left (fun s p => PrimFloat.add s (PrimFloat.mul (fst p) (snd p))) (combine w x) t.
Definition cond_lin (i : nat) (c : float) (x : FV) : float := PrimFloat.sub (nth i x 0%float) c.
Definition cond_rlin (i : nat) (c : float) (x : FV) : float := PrimFloat.sub c (nth i x 0%float).
Definition cond_sq (i : nat) (c : float) (x : FV) : float := PrimFloat.sub (PrimFloat.mul (nth i x 0%float) (nth i x 0%float)) c.
Definition pen (pt : ptype) (k : float) (cond : FV -> float) (x : FV) : float := papply NumF pt k (cond x).
Definition ofeq (a : option float) (b : option float) : bool :=
  match a, b with Some u, Some v => feq u v | None, None => true | _, _ => false end.
"""


def _fv(xs):
    return "(%s : list float)" % lst([float(v) for v in xs], flit)


def _op(o):
    nm = o[0]
    if nm == "clamplo": return "OClampLo %s %s" % (natlit(o[1]), flit(o[2]))
    if nm == "clamphi": return "OClampHi %s %s" % (natlit(o[1]), flit(o[2]))
    if nm == "pin": return "OPin %s %s" % (natlit(o[1]), flit(o[2]))
    if nm == "round": return "ORound %s %s" % (natlit(o[1]), flit(o[2]))
    if nm == "tie": return "OTie %s %s %s" % (natlit(o[1]), natlit(o[2]), flit(o[3]))
    if nm == "shift": return "OShift %s %s" % (natlit(o[1]), flit(o[2]))
    if nm == "scale": return "OScale %s %s" % (natlit(o[1]), flit(o[2]))
    if nm == "swap": return "OSwap %s %s" % (natlit(o[1]), natlit(o[2]))
    if nm == "neg": return "ONeg %s" % natlit(o[1])
    if nm == "droplast": return "ODropLast"
    if nm == "jump": return "OJump %s %s %s" % (natlit(o[1]), flit(o[2]), flit(o[3]))
    if nm == "raiseifle": return "ORaiseIfLe %s %s %s" % (natlit(o[1]), natlit(o[2]), flit(o[3]))
    if nm == "raiseifeq": return "ORaiseIfEq %s %s %s" % (natlit(o[1]), natlit(o[2]), flit(o[3]))
    if nm == "raise": return "ORaise %s" % natlit(o[1])
    raise AssertionError(nm)


def _ops(ops):
    return "(%s : list op)" % lst([_op(o) for o in ops])


def _members(ms):
    return "(%s : list (member FV))" % lst(["fam %s" % _ops(m["ops"]) for m in ms])


def _ambiguous(case):
    return case.get("xkind") in ("array", "intarray") and len(case["x"]) != 1


def _comb_term(case, obs):
    kind = case["kind"]
    mi = DEFAULT_MAXITER if case["maxiter"] is None else case["maxiter"]
    draws = obs["draws"]
    if kind == "or":
        if any(d[0] != "randint" for d in draws):
            return "false"
        stream = "(zs_of (%s : list Z))" % lst([zlit(d[3]) for d in draws])
        k = len(draws)
        call = "or_num NumF %s %s %s %s 0%%nat" % (stream, _members(case["members"]), natlit(mi), _fv(case["x"]))
    else:
        if len(draws) % 2 or any(d[0] != ("randint", "random")[i % 2] for i, d in enumerate(draws)):
            return "false"
        pairs = ["(%s, %s)" % (zlit(draws[i][3]), flit(draws[i + 1][1])) for i in range(0, len(draws), 2)]
        stream = "(zu_of (%s : list (Z * float)))" % lst(pairs)
        k = len(pairs)
        if kind == "and":
            call = "and_num NumF %s %s %s %s 0%%nat" % (stream, _members(case["members"]), natlit(mi), _fv(case["x"]))
        else:
            call = "not_num NumF %s (fam %s) %s %s %s 0%%nat" % (stream, _ops(case["members"][0]["ops"]), natlit(mi),
                                                                 "true" if _ambiguous(case) else "false", _fv(case["x"]))
    if "raised" in obs:
        if obs["raised"] != "TypeError":
            return "false"
        return "check_out (%s) 2%%nat nil %s" % (call, natlit(k))
    if len(obs["fired"]) != 1:
        return "false"
    path, r = obs["fired"][0]
    return "check_out (%s) %s %s %s" % (call, "0%nat" if path == "exit" else "1%nat", _fv(r), natlit(k))


def _fun_term(spec):
    if spec["t"] == "lin":
        return "(linf %s)" % _fv(spec["w"])
    return "(vecf %s)" % _ops(spec["ops"])


def _coupler_term(case, obs):
    w = case["which"]
    a = flit(0.0 if case["a"] is None else case["a"])
    b = flit(0.0 if case["b"] is None else case["b"])
    c, f, x = _fun_term(case["c"]), _fun_term(case["f"]), _fv(case["x"])
    if w in ("additive", "additive_proxy"):
        return "feq (%s NumF FV float float %s %s %s %s %s) %s" % (w, c, a, f, x, b, flit(obs["value"]))
    call = "%s _ _ _ _ _ %s %s %s %s %s" % (w, c, a, f, x, b)
    if isinstance(obs["value"], list):
        return "flist_eq (%s) %s" % (call, _fv(obs["value"]))
    return "feq (%s) %s" % (call, flit(obs["value"]))


_PT = {"linear_equality": "LinEq", "quadratic_equality": "QuadEq", "uniform_equality": "UniEq",
       "linear_inequality": "LinIneq", "quadratic_inequality": "QuadIneq", "uniform_inequality": "UniIneq"}


def _cond_term(spec):
    return "(cond_%s %s %s)" % (spec[0], natlit(spec[1]), flit(spec[2]))


def _penalty_terms(case, obs):
    w = case["which"]
    x = _fv(case["x"])
    if any(s[1] >= len(case["x"]) for s in ([case["member"]["cond"]] if w == "not" else [m["cond"] for m in case["members"]])):
        return []
    if w == "not":
        m = case["member"]
        pt = case["ptype"] or m["pt"] or "linear_equality"
        k = 1.0 if case["k"] is None else float(case["k"])
        return ["feq (pen_not NumF FV %s %s %s %s) %s" % (_PT[pt], flit(k), _cond_term(m["cond"]), x, flit(obs["value"]))]
    pt = case["ptype"] or "linear_equality"
    k = 1.0 if case["k"] is None else float(case["k"])
    ps = "(%s : list (FV -> float))" % lst(["pen %s %s %s" % (_PT[m["pt"]], flit(float(m["k"])), _cond_term(m["cond"]))
                                           for m in case["members"]])
    if w == "and":
        return ["feq (pen_and NumF FV %s %s %s %s) %s" % (_PT[pt], flit(k), ps, x, flit(obs["value"]))]
    exp = "None" if "raised" in obs else "(Some %s)" % flit(obs["value"])
    return ["ofeq (pen_or NumF FV %s %s %s %s) %s" % (_PT[pt], flit(k), ps, x, exp)]


def coq_terms(case, obs):
    if "__exception__" in obs:
        return []
    k = case["kind"]
    if k in ("and", "or", "not"):
        return [_comb_term(case, obs)] + [_comb_term(dict(case, x=xs), o) for xs, o in zip(case.get("more", []), obs.get("more", []))]
    if k == "coupler":
        return [_coupler_term(case, obs)]
    return _penalty_terms(case, obs)


def coq_debug(case, obs, k):
    t = coq_terms(case, obs)[k]
    if t.startswith("check_out ("):
        # print the model's own answer
        depth, i = 0, len("check_out ")
        for j in range(i, len(t)):
            if t[j] == "(": depth += 1
            elif t[j] == ")":
                depth -= 1
                if depth == 0:
                    return t[i:j + 1]
    return t


def classify(case, obs):
    k = case["kind"]
    tags = ["kind:" + k]
    nontrivial = False
    if k in ("and", "or", "not"):
        n = len(case["members"])
        tags += ["n:%d" % n, "cat:" + case.get("cat", "?"), "maxiter:" + str(case["maxiter"]), "len:%d" % len(case["x"]),
                 "x:" + case.get("xkind", "list"), "draws:" + case["draws"]]
        if "raised" in obs:
            tags.append(k + ":raised")
        elif obs.get("fired"):
            tags.append("%s:%s" % (k, obs["fired"][0][0]))
            tags.append("%s:%s:%s" % (k, obs["fired"][0][0], "with-draws" if obs.get("draws") else "no-draws"))
        nd = len(obs.get("draws", []))
        tags.append("ndraws:" + ("0" if nd == 0 else "1-8" if nd <= 8 else "9-64" if nd <= 64 else ">64"))
        tags.append("repeated-calls:%d" % len(case.get("more", [])))
        if any(member_may_raise(m) for m in case["members"]):
            tags.append("has-raising-member")
        if k == "and" and all(member_idempotent(m) for m in case["members"]):
            tags.append("and:all-idempotent")
        nontrivial = nd > 0 or (obs.get("fired") and obs["fired"][0][0] == "fail")
    elif k == "coupler":
        tags += ["coupler:" + case["which"], "args:" + ("none" if case["a"] is None else "given")]
        nontrivial = len(case["x"]) >= 1
    else:
        tags += ["penalty:" + case["which"], "ptype:" + str(case["ptype"])]
        if case["which"] != "not":
            tags.append("plain-members:%s" % ("some" if any(m.get("plain") for m in case["members"]) else "none"))
        if "value" in obs:
            tags.append("penalty:%s:%s" % (case["which"], "zero" if obs["value"] == 0 else "positive"))
        nontrivial = case["which"] == "not" or len(case.get("members", [])) >= 2
    return json.dumps(case, sort_keys=True), bool(nontrivial), tags


def shrink(case):
    k = case["kind"]
    if k in ("and", "or"):
        ms = case["members"]
        for i in range(len(ms)):
            yield dict(case, members=ms[:i] + ms[i + 1:])
    if k in ("and", "or", "not"):
        ms = case["members"]
        for i, m in enumerate(ms):
            for j in range(len(m["ops"])):
                yield dict(case, members=ms[:i] + [dict(m, ops=m["ops"][:j] + m["ops"][j + 1:])] + ms[i + 1:])
            if m.get("ret") == "array":
                yield dict(case, members=ms[:i] + [dict(m, ret="list")] + ms[i + 1:])
        if case.get("more"):
            yield {k2: v for k2, v in case.items() if k2 != "more"}
            for j in range(len(case["more"])):
                yield dict(case, more=case["more"][:j] + case["more"][j + 1:])
        if case["x"] and not case.get("more"):
            yield dict(case, x=case["x"][:-1])
        if case.get("xkind") != "list":
            yield dict(case, xkind="list", x=[float(v) for v in case["x"]])
        if case["maxiter"] is None:
            yield dict(case, maxiter=6)
        elif case["maxiter"] > 0:
            yield dict(case, maxiter=case["maxiter"] - 1)
        if case["draws"] != "zero-u":
            yield dict(case, draws="zero-u")
    elif k == "penalty" and case["which"] != "not":
        ms = case["members"]
        for i in range(len(ms)):
            yield dict(case, members=ms[:i] + ms[i + 1:])
