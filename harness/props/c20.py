"""C20 - monitors and log files give back exactly what was recorded.

Case kinds
  ops     script over a store of monitors (new/call/info/slice/add/extend/prepend) + int-index queries
  log     one LoggingMonitor / VerboseLoggingMonitor: calls + info lines, file read back with
          logfile_reader / read_history, file text compared with the codec model
  files   a monitor written with write_raw_file / write_support_file / write_converge_file and read back with
          read_raw_file / read_support_file / read_converge_file / read_history / read_import
  ids     munge._process_ids / _reduce_ids on id columns
  call0d  a zero-dimensional numpy array as cost
  rewrite a parameter file rewritten at the same path and read again in the same process
  selfop  a monitor extended / prepended / added with itself
"""
import os, sys, io, json, math, contextlib, itertools
from harness.coqio import flit, zlit, natlit, lst, opt, blit, slit

ID = "C20"
TITLE = "Monitors and log files give back exactly what was recorded"
PROPS_FILE = "Props/Properties_C20.v"
LEVEL = "proof"
SIZES = {"quick": 1500, "thorough": 30000}
PARALLEL = True
SHARD = 150
COQ_TIMEOUT = 600
RULE = ("cases: kind in {ops, log, files, ids, call0d, rewrite, selfop}; ops = scripts of <= 14 operations over <= 3 created monitors "
        "(classes Monitor/VerboseMonitor/LoggingMonitor/VerboseLoggingMonitor, k in {None,1,-1,2,0.5,3}), records with python/numpy "
        "scalars, lists, tuples, 1-d/2-d arrays, vector costs, ids; value classes grid (k/8), generic, special (inf/nan/-0/"
        "subnormal/huge); non-trivial = at least two records in some monitor/file; distinct = distinct case JSON")
TRUSTED = ["real-number axioms of Coq's standard library (Reals) for the k-transparency theorems (field arithmetic)",
           "Python's repr/str/eval of numbers is the abstract printer of the log codec (hypotheses read(show v) = v, no blank / "
           "newline inside a printed number are checked on every generated file)",
           "the binary64 instance of the model (PrimFloat) is evaluated on the same inputs and compared bit for bit "
           "(NaN = NaN, signed zeros distinguished)"]
ASSUMPTIONS = ["a per-case guard (address-space limit + interval timer) turns non-termination / unbounded allocation of the implementation into a failure of the case",
               "IEEE rounding of y*k/k for k not a power of two is modelled (bit-exact in the correspondence), not verified: the theorems are over R",
               "nested (2-d) parameter arrays in log lines are checked by the oracle only, the codec model covers flat parameter vectors",
               "index objects other than int and slice (lists, arrays, tuples) in Monitor.__getitem__ are not modelled",
               "file system, import machinery and dill are outside the model"]
META = dict(
    technique="Coq proof (list/record algebra, python slice semantics, string codec with abstract printer) + model/implementation correspondence by vm_compute",
    level_text=("len/nth round trip, k transparency (over R, k<>0), slice/+/extend/prepend = concatenations, arguments unchanged (store model), "
                "log line/file codec round trip for any printer with read(show v)=v and blank-free output, transpose round trips of the "
                "support/converge formats, id column round trip are theorems about the Gallina model; the model is tied to "
                "mystic.monitors / mystic.munge by running both on generated scripts and real files every run."),
    level_note=("All clauses are proved at full strength for the model.  Eight defects found by this check on the original tree "
                "(cost divided by k twice in support/converge files, numpy-scalar repr in written files, mixed numpy/python costs, "
                "0-d array cost with k, stale module cache in read_import, a.extend(a)/a.prepend(a) not terminating) were repaired in "
                "/repo by fix: commits; the model follows the repaired code and each would now be reported as a VIOLATION."),
    design_ref="5/C20")

WORKDIR = os.path.join(os.path.dirname(os.path.dirname(os.path.dirname(os.path.abspath(__file__)))), ".work", "C20", "files")

# ------------------------------------------------------------------ values

def enc(v):
    """float -> JSON-able (non-finite as strings)"""
    v = float(v)
    if v != v:
        return "nan"
    if v == math.inf:
        return "inf"
    if v == -math.inf:
        return "-inf"
    return v


def dec(v):
    return float(v)


def enc_tree(t):
    if isinstance(t, (list, tuple)):
        return [enc_tree(i) for i in t]
    if hasattr(t, "tolist") and getattr(t, "ndim", 0) > 0:
        return [enc_tree(i) for i in t]
    return enc(t)


def dec_tree(t):
    if isinstance(t, list):
        return [dec_tree(i) for i in t]
    return dec(t)


def same(a, b):
    """numeric identity as printed: NaN = NaN, +0 / -0 distinguished"""
    a, b = float(a), float(b)
    if a != a or b != b:
        return a != a and b != b
    return a == b and math.copysign(1.0, a) == math.copysign(1.0, b)


def close(a, b):
    a, b = float(a), float(b)
    if a != a or b != b:
        return a != a and b != b
    if a == b:
        return True
    if math.isinf(a) or math.isinf(b):
        return False
    return abs(a - b) <= 1e-12 * max(abs(a), abs(b))


def tree_same(a, b, eq=same):
    la, lb = isinstance(a, (list, tuple)), isinstance(b, (list, tuple))
    if la != lb:
        return False
    if la:
        return len(a) == len(b) and all(tree_same(x, y, eq) for x, y in zip(a, b))
    if a is None or b is None:
        return a is None and b is None
    return eq(a, b)


SPECIAL = [math.inf, -math.inf, math.nan, -0.0, 0.0, 5e-324, 1e-320, 2.2250738585072014e-308,
           1.7976931348623157e308, -1e308, 1e-300, 123456789.12345679, -1e-5, 1e16, 0.1, 1 / 3.0]
KPOOL = {"grid": [None, None, 1, -1, 2, 0.5, 3, 1.0, 2.0, -1.0, 3.0],
         "generic": [None, None, 1, -1, 2, 0.5, -1.0, 2.0],
         "special": [None, None, 1, -1, -1.0, 1.0]}


def _val(rng, vclass):
    if vclass == "grid":
        return rng.randint(-64, 64) / 8.0
    if vclass == "generic":
        r = rng.random()
        if r < 0.4:
            return rng.uniform(-1000, 1000)
        if r < 0.8:
            return rng.choice([-1, 1]) * 10 ** rng.uniform(-6, 6)
        return rng.choice([0.1, 1 / 3.0, 2.5, -7.0, 1e-9, 12345.678])
    if rng.random() < 0.7:
        return rng.choice(SPECIAL)
    return rng.randint(-64, 64) / 8.0


def _xval(rng, vclass):
    # x never takes part in arithmetic: any value class may appear
    return _val(rng, vclass if rng.random() < 0.8 else "special")


def _gen_x(rng, vclass, dim, forms=None):
    form = rng.choice(forms or ["list", "list", "list", "tuple", "ndarray", "ndarray", "scalar", "npscalar", "matrix", "ndmatrix", "empty"])
    if form in ("scalar", "npscalar"):
        return form, enc(_xval(rng, vclass))
    if form in ("matrix", "ndmatrix"):
        r, c = rng.randint(1, 3), rng.randint(1, 3)
        return form, [[enc(_xval(rng, vclass)) for _ in range(c)] for _ in range(r)]
    if form == "empty":
        return "list", []
    return form, [enc(_xval(rng, vclass)) for _ in range(dim)]


def _gen_y(rng, vclass, forms=None):
    form = rng.choice(forms or ["float", "float", "float", "npfloat", "npfloat", "int", "list", "tuple", "ndarray"])
    if form == "int":   # python ints have no signed zero (0*-1/-1 = -0.0): zero is generated as a float only
        return form, enc(float(rng.choice([-9, -4, -3, -2, -1, 1, 2, 3, 5, 8])))
    if form in ("float", "npfloat"):
        return form, enc(_val(rng, vclass))
    return form, [enc(_val(rng, vclass)) for _ in range(rng.randint(0 if form != "ndarray" else 1, 3))]


def _gen_id(rng):
    return rng.choice([None, None, None, 0, 1, 2, 7, -3, "np5"])


def _slice_arg(rng, n):
    r = rng.random()
    if r < 0.3:
        return None
    return rng.randint(-n - 2, n + 2)


def _gen_ops(rng, tier):
    vclass = rng.choice(["grid", "grid", "generic", "special"])
    kp = KPOOL[vclass]
    classes = ["Monitor"] * 5 + ["VerboseMonitor", "LoggingMonitor", "VerboseLoggingMonitor"]
    dim = rng.randint(1, 3)
    nmon = rng.randint(1, 3)
    ops = [["new", rng.choice(kp), rng.choice(classes)] for _ in range(nmon)]
    lens = [0] * nmon
    nops = rng.randint(2, 14 if tier == "quick" else 22)
    for _ in range(nops):
        r = rng.random()
        n = len(lens)
        t = rng.randrange(n)
        if r < 0.45:
            xf, x = _gen_x(rng, vclass, dim)
            yf, y = _gen_y(rng, vclass)
            ops.append(["call", t, xf, x, yf, y, _gen_id(rng)])
            lens[t] += 1
        elif r < 0.5:
            ops.append(["info", t, rng.randint(0, 5)])
        elif r < 0.68 and n < 9:
            L = lens[t]
            step = rng.choice([None, None, None, 1, 2, -1, -1, -2, 3, -3, 0])
            if rng.random() < 0.25:      # the whole monitor, forwards or backwards: a result as long as its source
                ops.append(["slice", t, None, None, rng.choice([-1, -1, None])])
            else:
                ops.append(["slice", t, _slice_arg(rng, L), _slice_arg(rng, L), step])
            if step != 0:
                lens.append(L)   # upper bound only (used to aim indices)
        elif r < 0.8 and n < 9:
            b = rng.randrange(n)
            ops.append(["add", t, b])
            lens.append(lens[t] + lens[b])
        else:
            b = rng.randrange(n) if (n < 2 or rng.random() < 0.15) else rng.choice([i for i in range(n) if i != t])
            ops.append(["extend" if rng.random() < 0.5 else "prepend", t, b])
            lens[t] += lens[b]
    queries = []
    for _ in range(rng.randint(1, 5)):
        t = rng.randrange(len(lens))
        L = lens[t]
        queries.append([t, rng.choice([0, -1, L - 1, -L, L, -L - 1, rng.randint(-L - 2, L + 2)]), rng.random() < 0.2])
    return dict(kind="ops", vclass=vclass, ops=ops, queries=queries)


def _gen_log(rng, tier):
    vclass = rng.choice(["grid", "grid", "generic", "special"])
    k = rng.choice(KPOOL[vclass])
    dim = rng.randint(1, 4)
    ragged = rng.random() < 0.15
    nested = rng.random() < 0.12
    ops = []
    for _ in range(rng.randint(0, 9 if tier == "quick" else 20)):
        if rng.random() < 0.12:
            ops.append(["info", rng.choice(["done", "a   b", "STOP(x = 3)", "inf = 3", "# nested", "", "  (9,)     1.0   [2.0]"])])
        else:
            forms = ["list", "list", "tuple", "ndarray", "ndarray", "scalar", "npscalar"]
            if nested:
                forms += ["matrix", "ndmatrix"]
            if ragged:
                forms += ["empty"]
            xf, x = _gen_x(rng, vclass, rng.randint(1, 4) if ragged else dim, forms)
            yf, y = _gen_y(rng, vclass, ["float", "float", "float", "npfloat", "npfloat", "list", "tuple", "ndarray"])
            ops.append(["call", xf, x, yf, y, _gen_id(rng)])
    return dict(kind="log", vclass=vclass, cls=rng.choice(["LoggingMonitor", "LoggingMonitor", "VerboseLoggingMonitor"]),
                interval=rng.choice([1, 1, 1, 1, 2, 3, 0, None]), k=k, label=rng.choice([None, None, "cost"]), ops=ops)


def _gen_files(rng, tier):
    vclass = rng.choice(["grid", "grid", "generic", "special"])
    # k = None/1 most of the time so that the k finding does not mask everything else
    k = rng.choice([None, None, None, 1, 1.0] + KPOOL[vclass])
    dim = rng.randint(1, 4)
    n = rng.choice([0, 1, 2, 3, 3, 4, 6])
    r = rng.random()
    npmode = "none" if r < 0.6 else rng.choice(["x", "y", "mixed-y", "both"])
    vec = rng.random() < 0.25
    idmode = rng.choice(["none", "none", "same", "mixed", "mixed", "some-none"])
    recs = []
    for i in range(n):
        xform = "ndarray" if npmode in ("x", "both") and (i == 0 or rng.random() < 0.7) else rng.choice(["list", "tuple"])
        x = [enc(_xval(rng, vclass)) for _ in range(dim)]
        if vec:
            yform, y = rng.choice(["list", "tuple"]), [enc(_val(rng, vclass)) for _ in range(2)]
        else:
            y = enc(_val(rng, vclass))
            if npmode in ("y", "both"):
                yform = "npfloat"
            elif npmode == "mixed-y":
                yform = "npfloat" if i % 2 == 0 else "float"
            else:
                yform = "float"
        if idmode == "none":
            id_ = None
        elif idmode == "same":
            id_ = 4
        elif idmode == "mixed":
            id_ = rng.choice([0, 1, 2])
        else:
            id_ = rng.choice([None, 0, 1])
        recs.append([xform, x, yform, y, id_])
    return dict(kind="files", vclass=vclass, k=k, recs=recs)


def _gen_ids(rng, tier):
    r = rng.random()
    n = rng.choice([0, 1, 2, 3, 5, 6])
    if r < 0.1:
        ids = None
    elif r < 0.2:
        ids = rng.choice([0, 3, -2])
    elif r < 0.75:
        pool = rng.choice([[None], [0, 1], [0, 1, 2, None], [5], [None, 1]])
        ids = [rng.choice(pool) for _ in range(rng.choice([0, 1, 2, 3, 5, 6]))]
    else:
        m = rng.choice([0, 1, 2, 4])
        one = rng.random() < 0.5
        ids = [["t", i] if one else ["t", i, rng.choice([None, 0, 1])] for i in range(m)]
    return dict(kind="ids", ids=ids, n=rng.choice([n, n, len(ids) if isinstance(ids, list) else n]))


def generate(rng, n, tier):
    for i in range(n):
        r = rng.random()
        if r < 0.5:
            yield _gen_ops(rng, tier)
        elif r < 0.72:
            yield _gen_log(rng, tier)
        elif r < 0.9:
            yield _gen_files(rng, tier)
        elif r < 0.968:
            yield _gen_ids(rng, tier)
        elif r < 0.981:
            # selecting from a monitor with a list / array of positions or a boolean mask (homogeneous history: numpy indexing)
            n_ = rng.randint(1, 6); d_ = rng.randint(1, 3)
            ik = rng.choice(["int_list", "int_array", "mask_list", "mask_array"])
            idx = [rng.random() < 0.5 for _ in range(n_)] if ik.startswith("mask") else [rng.randrange(-n_, n_) for _ in range(rng.randint(0, n_ + 1))]
            yield dict(kind="pick", k=rng.choice([None, None, 2, -1, 0.5]), xs=[[rng.randint(-16, 16) / 4.0 for _ in range(d_)] for _ in range(n_)],
                       ys=[rng.randint(-16, 16) / 4.0 for _ in range(n_)], ids=rng.choice([None, "ints"]), ik=ik, idx=idx)
        elif r < 0.983:
            yield dict(kind="selfop", op=rng.choice(["extend", "prepend", "add"]), k=rng.choice([None, 2, -1]), n=rng.randint(1, 3))
        elif r < 0.99:
            yield dict(kind="call0d", k=rng.choice([None, None, 1, 2, -1]), y=enc(rng.randint(-8, 8) / 4.0))
        else:
            yield dict(kind="rewrite", a=[enc(rng.randint(-8, 8) / 4.0) for _ in range(2)], b=[enc(rng.randint(9, 20) / 4.0) for _ in range(2)],
                       writer=rng.choice(["raw", "support"]))


# ------------------------------------------------------------------ implementation drivers

def _mk_x(form, x):
    import numpy as np
    if form == "scalar":
        return dec(x)
    if form == "npscalar":
        return np.float64(dec(x))
    v = dec_tree(x)
    if form == "tuple":
        return tuple(v)
    if form in ("ndarray", "ndmatrix"):
        return np.array(v, dtype=float)
    return v


def _mk_y(form, y):
    import numpy as np
    if form == "int":
        return int(dec(y))
    if form == "float":
        return dec(y)
    if form == "npfloat":
        return np.float64(dec(y))
    v = dec_tree(y)
    if form == "tuple":
        return tuple(v)
    if form == "ndarray":
        return np.array(v, dtype=float)
    return v


def _mk_id(i):
    import numpy as np
    if i == "np5":
        return np.int64(5)
    return i


def _id_val(i):
    return None if i is None else int(i)


_counter = [0]


def _fresh(stem, ext):
    os.makedirs(WORKDIR, exist_ok=True)
    _counter[0] += 1
    return os.path.join(WORKDIR, "%s_%d_%d%s" % (stem, os.getpid(), _counter[0], ext))


def _rm(path):
    try:
        os.remove(path)
    except OSError:
        pass


def _new_monitor(cls, k, files):
    import mystic.monitors as mm
    kw = {} if k is None and False else {"k": k}
    if cls == "Monitor":
        return mm.Monitor(**kw)
    if cls == "VerboseMonitor":
        return mm.VerboseMonitor(2, 3, **kw)
    fn = _fresh("opslog", ".txt")
    files.append(fn)
    if cls == "LoggingMonitor":
        return mm.LoggingMonitor(1, fn, new=True, **kw)
    return mm.VerboseLoggingMonitor(1, 2, 3, fn, new=True, **kw)


def _obs_cost(y):
    if isinstance(y, (list, tuple)) or (hasattr(y, "ndim") and y.ndim > 0):
        return [enc(v) for v in y]
    return enc(y)


def _min_ok(m):
    """min() names the record with the smallest cost as the user gave it (whatever k scales it by internally); None when not applicable"""
    try:
        ys = list(m.y)
        if not ys or any(isinstance(v, (list, tuple)) or hasattr(v, "__len__") or v != v for v in ys):
            return None
        r = m.min()
        j = min(range(len(ys)), key=lambda i: (ys[i], i))
        xa, xb = list(map(float, r[0])), list(map(float, m.x[j]))
        return bool(float(r[1]) == float(ys[j]) and len(xa) == len(xb) and all(a == b or (a != a and b != b) for a, b in zip(xa, xb)))
    except Exception:
        return None


def _obs_monitor(m):
    return dict(x=enc_tree(m.x), y=[_obs_cost(v) for v in m.y], id=[_id_val(i) for i in m.id], min_ok=_min_ok(m),
                info=list(m.get_info()), k=(None if m.k is None else enc(m.k)), len=len(m), cls=type(m).__name__)


def _err(e):
    return {"error": type(e).__name__}


def _run_ops(case):
    files, store, flags = [], [], []
    try:
        for o in case["ops"]:
            try:
                if o[0] == "new":
                    store.append(_new_monitor(o[2], o[1], files))
                elif o[0] == "call":
                    xo, yo = _mk_x(o[2], o[3]), _mk_y(o[4], o[5])
                    store[o[1]](xo, yo, _mk_id(o[6]))
                    # the caller goes on using its own buffers: what was recorded must not follow
                    if isinstance(xo, list) and xo and not isinstance(xo[0], (list, tuple)):
                        xo[0] = 98765.4321
                    if isinstance(yo, list) and yo:
                        yo[0] = 98765.4321
                elif o[0] == "info":
                    store[o[1]].info("msg%d" % o[2])
                elif o[0] == "slice":
                    store.append(store[o[1]][slice(o[2], o[3], o[4])])
                elif o[0] == "add":
                    store.append(store[o[1]] + store[o[2]])
                elif o[0] == "extend":
                    store[o[1]].extend(store[o[2]])
                elif o[0] == "prepend":
                    store[o[1]].prepend(store[o[2]])
                for m_ in store:          # the user looks at every monitor between operations (reading must not change what is read later)
                    m_.y, m_.x, m_.id
                flags.append(True)
            except (MemoryError, CaseTimeout):
                store = None      # release whatever blew up before reporting
                raise
            except Exception as e:
                flags.append(type(e).__name__)
        qs = []
        for t, i, asnp in case["queries"]:
            try:
                import numpy as np
                x, y = store[t][np.int64(i) if asnp else i]
                qs.append([enc_tree(x), _obs_cost(y)])
            except Exception as e:
                qs.append(_err(e))
        return dict(flags=flags, store=[_obs_monitor(m) for m in store], queries=qs)
    finally:
        for f in files:
            _rm(f)


def _run_log(case):
    import mystic.monitors as mm
    from mystic import munge
    fn = _fresh("log", ".txt")
    try:
        kw = {"k": case["k"]}
        if case["label"]:
            kw["label"] = case["label"]
        if case["cls"] == "LoggingMonitor":
            m = mm.LoggingMonitor(case["interval"], fn, new=True, **kw)
        else:
            m = mm.VerboseLoggingMonitor(case["interval"], 2, 3, fn, new=True, **kw)
        for o in case["ops"]:
            if o[0] == "info":
                m.info(o[1])
            else:
                m(_mk_x(o[1], o[2]), _mk_y(o[3], o[4]), _mk_id(o[5]))
        text = open(fn).read()
        out = dict(text=text, mon=_obs_monitor(m))
        # tokens as Python prints them (the abstract printer): scalars through "%s", list elements through repr
        toks = []
        for x, y, i in zip(m.x, m.y, m.id):
            xt = [repr(v) for v in x] if isinstance(x, list) else ["%s" % x]
            flat = not isinstance(x, list) or all(not isinstance(v, (list, tuple)) for v in x)
            yt = [repr(v) for v in y] if isinstance(y, (list, tuple)) else "%s" % (y,)
            toks.append(dict(x=xt, y=yt, id=(None if i is None else repr(i)), flat=flat))
        out["tokens"] = toks

        def _lr():
            s, p, c = munge.logfile_reader(fn, iter=True)
            return dict(step=[[int(v) if v is not None else None for v in t] for t in s], params=enc_tree(p), cost=[_obs_cost(v) for v in c])
        try:
            out["reader"] = _lr()
        except Exception as e:
            out["reader"] = _err(e)

        def _rh():
            s, p, c = munge.read_history(fn, iter=True)
            return dict(step=None if s is None else [[int(v) if v is not None else None for v in t] for t in s],
                        params=enc_tree(p), cost=[_obs_cost(v) for v in c])
        try:
            out["history"] = _rh()
        except Exception as e:
            out["history"] = _err(e)
        try:
            p2, c2 = munge.logfile_reader(fn)
            out["reader_noiter"] = dict(params=enc_tree(p2), cost=[_obs_cost(v) for v in c2])
        except Exception as e:
            out["reader_noiter"] = _err(e)
        return out
    finally:
        _rm(fn)


def _steps(s):
    if s is None:
        return None
    if isinstance(s, int):
        return s
    return [[(None if v is None else int(v)) for v in t] for t in s]


def _build_monitor(case):
    import mystic.monitors as mm
    m = mm.Monitor(k=case["k"])
    for xf, x, yf, y, i in case["recs"]:
        m(_mk_x(xf, x), _mk_y(yf, y), _mk_id(i))
    return m


def _run_files(case):
    from mystic import munge
    m = _build_monitor(case)
    out = dict(mon=_obs_monitor(m))
    paths = []
    try:
        for name, writer in (("raw", munge.write_raw_file), ("support", munge.write_support_file), ("converge", munge.write_converge_file)):
            fn = _fresh("pf" + name, ".py")
            paths.append(fn)
            try:
                writer(m, fn)
                out[name + "_written"] = True
            except Exception as e:
                out[name + "_written"] = _err(e)
                continue
            out[name + "_text"] = open(fn).read()

            def rd(f, post):
                try:
                    return post(f())
                except Exception as e:
                    return _err(e)
            out[name + "_raw"] = rd(lambda: munge.read_raw_file(fn, iter=True),
                                    lambda r: dict(ids=_steps(r[0]), params=enc_tree(r[1]), cost=[_obs_cost(v) for v in r[2]]))
            if name == "raw":
                out["raw_noiter"] = rd(lambda: munge.read_raw_file(fn), lambda r: dict(params=enc_tree(r[0]), cost=[_obs_cost(v) for v in r[1]]))
                out["raw_import"] = rd(lambda: munge.read_import(fn, "params", "cost"), lambda r: dict(params=enc_tree(r[0]), cost=[_obs_cost(v) for v in r[1]]))
            if name == "support":
                out["support_read"] = rd(lambda: munge.read_support_file(fn, iter=True),
                                         lambda r: dict(ids=_steps(r[0]), params=enc_tree(r[1][0]), cost=[_obs_cost(v) for v in r[1][1]]))
                out["support_history"] = rd(lambda: munge.read_history(fn, iter=True),
                                            lambda r: dict(ids=_steps(r[0]), params=enc_tree(r[1]), cost=[_obs_cost(v) for v in r[2]]))
            if name == "converge":
                out["converge_read"] = rd(lambda: munge.read_converge_file(fn, iter=True),
                                          lambda r: dict(ids=_steps(r[0]), params=enc_tree(r[1][0]), cost=[_obs_cost(v) for v in r[1][1]]))
        try:
            r = munge.read_history(m, iter=True)
            out["mon_history"] = dict(ids=_steps(r[0]), params=enc_tree(r[1]), cost=[_obs_cost(v) for v in r[2]])
        except Exception as e:
            out["mon_history"] = _err(e)
        try:
            r = munge.read_trajectories(m, iter=True)
            out["mon_traj"] = dict(ids=_steps(r[0]), params=enc_tree(r[1]), cost=[_obs_cost(v) for v in r[2]])
        except Exception as e:
            out["mon_traj"] = _err(e)
        return out
    finally:
        for p in paths:
            _rm(p)
            sys.modules.pop(os.path.splitext(os.path.basename(p))[0], None)


def _py_ids(ids):
    if isinstance(ids, list):
        return [tuple(i[1:]) if isinstance(i, list) else i for i in ids]
    return ids


def _run_ids(case):
    from mystic import munge
    ids = _py_ids(case["ids"])
    try:
        r = munge._process_ids(ids if not isinstance(ids, list) else list(ids), case["n"])
    except Exception as e:
        return dict(process=_err(e))
    out = dict(process=_steps(r))
    if isinstance(r, list):
        try:
            out["reduce"] = [_id_val(i) for i in munge._reduce_ids(r)]
        except Exception as e:
            out["reduce"] = _err(e)
    return out


def _run_call0d(case):
    import numpy as np
    import mystic.monitors as mm
    m = mm.Monitor(k=case["k"])
    try:
        m([1.0], np.array(dec(case["y"])))
    except Exception as e:
        return dict(error=type(e).__name__, lens=[len(m._x), len(m._y), len(m._id)])
    return dict(len=len(m), y=[enc(float(v)) for v in m.y], lens=[len(m._x), len(m._y), len(m._id)])


def _run_selfop(case):
    """a monitor combined with itself; extend/prepend with self may never return in the implementation"""
    import mystic.monitors as mm
    m = mm.Monitor(k=case["k"])
    for i in range(case["n"]):
        m([float(i)], float(i) + 0.5, i)
    try:
        with _guard(0.4, 1 << 28):
            if case["op"] == "add":
                r = m + m
            else:
                getattr(m, case["op"])(m)
                r = m
            return dict(x=enc_tree(r.x), y=[_obs_cost(v) for v in r.y], id=[_id_val(i) for i in r.id], arg_len=len(m))
    except (MemoryError, CaseTimeout) as e:
        m = r = None
        return dict(error=type(e).__name__)


def _run_rewrite(case):
    from mystic import munge
    import mystic.monitors as mm
    fn = _fresh("pfrw", ".py")
    w = munge.write_raw_file if case["writer"] == "raw" else munge.write_support_file
    try:
        out = {}
        for tag, vals in (("first", case["a"]), ("second", case["b"])):
            m = mm.Monitor()
            m([dec(vals[0])], dec(vals[1]))
            w(m, fn)
            try:
                r = munge.read_raw_file(fn)
                out[tag] = dict(params=enc_tree(r[0]), cost=[_obs_cost(v) for v in r[1]])
            except Exception as e:
                out[tag] = _err(e)
        return out
    finally:
        _rm(fn)
        sys.modules.pop(os.path.splitext(os.path.basename(fn))[0], None)


class CaseTimeout(Exception):
    pass


@contextlib.contextmanager
def _guard(seconds=20.0, extra_bytes=1 << 30):
    """a broken implementation may loop forever or allocate without bound (a.extend(a)): turn both into
    exceptions of the case instead of a hung check.  Limits are restored afterwards (the same process may
    later start coqc)."""
    import signal, resource

    def _alarm(*a):
        raise CaseTimeout("case exceeded %.0fs" % seconds)
    old_handler = signal.signal(signal.SIGALRM, _alarm)
    soft, hard = resource.getrlimit(resource.RLIMIT_AS)
    try:
        with open("/proc/self/statm") as f:
            vsz = int(f.read().split()[0]) * os.sysconf("SC_PAGE_SIZE")
        lim = vsz + extra_bytes
        if hard != resource.RLIM_INFINITY:
            lim = min(lim, hard)
        resource.setrlimit(resource.RLIMIT_AS, (lim, hard))
    except Exception:
        pass
    signal.setitimer(signal.ITIMER_REAL, seconds)
    try:
        yield
    finally:
        signal.setitimer(signal.ITIMER_REAL, 0)
        signal.signal(signal.SIGALRM, old_handler)
        try:
            resource.setrlimit(resource.RLIMIT_AS, (soft, hard))
        except Exception:
            pass


def _run_pick(case):
    import numpy
    from mystic.monitors import Monitor
    m = Monitor(k=case["k"]) if case["k"] is not None else Monitor()
    for j, (x, y) in enumerate(zip(case["xs"], case["ys"])):
        m(list(x), y, j if case["ids"] == "ints" else None) if case["ids"] == "ints" else m(list(x), y)
    idx = list(case["idx"])
    if case["ik"].endswith("array"):
        idx = numpy.array(idx, dtype=bool if case["ik"].startswith("mask") else int)
    before = ([list(map(float, v)) for v in m.x], [float(v) for v in m.y])
    try:
        r = m[idx]
        return dict(x=[list(map(float, v)) for v in r.x], y=[float(v) for v in r.y], id=[None if v is None else int(v) for v in r.id],
                    k=None if r.k is None else float(r.k), source_unchanged=([list(map(float, v)) for v in m.x], [float(v) for v in m.y]) == before)
    except (TypeError, IndexError, ValueError) as e:
        return dict(error=type(e).__name__, msg=str(e)[:160])


def _oracle_pick(case, obs):
    n = len(case["xs"])
    if case["ik"].startswith("mask"):
        sel = [j for j, b in enumerate(case["idx"]) if b]
    else:
        sel = [j % n for j in case["idx"]]
    if not sel and not case["idx"] and "error" in obs:
        return []       # an empty python list has no integer dtype for numpy: outside the claim
    want = dict(x=[case["xs"][j] for j in sel], y=[case["ys"][j] for j in sel], id=[(j if case["ids"] == "ints" else None) for j in sel])
    if "error" in obs:
        return [_fail("nth_roundtrip", "Monitor.__getitem__", "index-list-or-mask-raises", dict(obs=obs, index=case["idx"], kind=case["ik"]))]
    out = []
    if obs["x"] != want["x"] or obs["y"] != want["y"] or obs["id"] != want["id"]:
        out.append(_fail("nth_roundtrip", "Monitor.__getitem__", "index-list-or-mask-selects-other-entries", dict(got=obs, want=want, index=case["idx"], kind=case["ik"])))
    if not obs.get("source_unchanged", True):
        out.append(_fail("arguments_unchanged", "Monitor.__getitem__", "source-changed", obs))
    if (obs["k"] is None) != (case["k"] is None) or (obs["k"] is not None and obs["k"] != float(case["k"])):
        out.append(_fail("k_kept", "Monitor.__getitem__", "k-not-kept", obs))
    return out


def run_impl(case):
    with _guard(), contextlib.redirect_stdout(io.StringIO()):
        k = case["kind"]
        if k == "ops":
            return _run_ops(case)
        if k == "log":
            return _run_log(case)
        if k == "files":
            return _run_files(case)
        if k == "ids":
            return _run_ids(case)
        if k == "call0d":
            return _run_call0d(case)
        if k == "rewrite":
            return _run_rewrite(case)
        if k == "selfop":
            return _run_selfop(case)
        if k == "pick":
            return _run_pick(case)
    raise ValueError(k)


# ------------------------------------------------------------------ oracle (property stated on the implementation)

def _fail(clause, site, pattern, detail):
    return dict(clause=clause, site=site, pattern=pattern, detail=detail)


def _canon_x(form, x):
    """what listify(x) must hold"""
    return x


def _exact_k(ks):
    return all(k is None or abs(k) == 1 for k in ks)


def _cost_same(a, b, exact):
    return tree_same(a, b, same if exact else close)


def _shadow_ops(case):
    """the specification: plain python lists of the recorded values"""
    store, flags = [], []
    for o in case["ops"]:
        if o[0] != "new" and any(not (0 <= i < len(store)) for i in ([o[1]] + ([o[2]] if o[0] in ("add", "extend", "prepend") else []))):
            flags.append("IndexError")
            continue
        if o[0] == "new":
            store.append(dict(x=[], y=[], id=[], info=[], k=o[1], cls=o[2], info_ok=True))
            flags.append(True)
        elif o[0] == "call":
            m = store[o[1]]
            m["x"].append(o[3]); m["y"].append(o[5]); m["id"].append(5 if o[6] == "np5" else o[6])
            flags.append(True)
        elif o[0] == "info":
            store[o[1]]["info"].append("msg%d" % o[2])
            flags.append(True)
        elif o[0] == "slice":
            m = store[o[1]]
            if o[4] == 0:
                flags.append("ValueError")
                continue
            s = slice(o[2], o[3], o[4])
            store.append(dict(x=m["x"][s], y=m["y"][s], id=m["id"][s], info=[], k=m["k"], cls=m["cls"], info_ok=False))
            flags.append(True)
        elif o[0] == "add":
            a, b = store[o[1]], store[o[2]]
            store.append(dict(x=a["x"] + b["x"], y=a["y"] + b["y"], id=a["id"] + b["id"], info=a["info"] + b["info"], k=a["k"], cls=a["cls"],
                              info_ok=a["info_ok"] and b["info_ok"]))
            flags.append(True)
        elif o[0] == "extend":
            a, b = store[o[1]], store[o[2]]
            a["x"] = a["x"] + b["x"]; a["y"] = a["y"] + b["y"]; a["id"] = a["id"] + b["id"]; a["info"] = a["info"] + b["info"]
            a["info_ok"] = a["info_ok"] and b["info_ok"]
            flags.append(True)
        elif o[0] == "prepend":
            a, b = store[o[1]], store[o[2]]
            a["x"] = b["x"] + a["x"]; a["y"] = b["y"] + a["y"]; a["id"] = b["id"] + a["id"]; a["info"] = b["info"] + a["info"]
            a["info_ok"] = a["info_ok"] and b["info_ok"]
            flags.append(True)
    return store, flags


def _oracle_ops(case, obs):
    out = []
    shadow, flags = _shadow_ops(case)
    if obs["flags"] != flags:
        bad = [i for i, (a, b) in enumerate(zip(obs["flags"], flags)) if a != b]
        op = case["ops"][bad[0]] if bad else None
        return [_fail("operation-outcome", "Monitor." + (op[0] if op else "?"), "unexpected-" + str(obs["flags"][bad[0]] if bad else "len"), dict(op=op, got=obs["flags"], want=flags))]
    exact = _exact_k([m["k"] for m in shadow])
    if len(obs["store"]) != len(shadow):
        return [_fail("store-size", "Monitor", "store", None)]
    for j, (o, s) in enumerate(zip(obs["store"], shadow)):
        if o["len"] != len(s["x"]) or len(o["y"]) != len(s["x"]) or len(o["id"]) != len(s["x"]):
            out.append(_fail("len_after_n_calls", "Monitor.__len__", "length", dict(monitor=j, got=o["len"], want=len(s["x"]))))
            continue
        if not tree_same(o["x"], s["x"]):
            out.append(_fail("x_roundtrip", "Monitor.x", "value", dict(monitor=j, got=o["x"], want=s["x"])))
        if not _cost_same(o["y"], s["y"], exact):
            out.append(_fail("y_roundtrip_k_transparent", "Monitor.y", "value", dict(monitor=j, got=o["y"], want=s["y"], k=s["k"])))
        if o["id"] != s["id"]:
            out.append(_fail("id_roundtrip", "Monitor.id", "value", dict(monitor=j, got=o["id"], want=s["id"])))
        if s["info_ok"] and o["info"] != s["info"]:
            out.append(_fail("info", "Monitor.info", "value", dict(monitor=j, got=o["info"], want=s["info"])))
        if not tree_same(o["k"], s["k"], lambda a, b: float(a) == float(b)):
            out.append(_fail("k_kept", "Monitor.k", "value", dict(monitor=j, got=o["k"], want=s["k"])))
        if o["cls"] != s["cls"]:
            out.append(_fail("class_kept", "Monitor.__getitem__", "class", dict(monitor=j, got=o["cls"], want=s["cls"])))
        if o.get("min_ok") is False:
            out.append(_fail("y_roundtrip_k_transparent", "Monitor.min", "min-is-not-the-smallest-recorded-cost", dict(monitor=j, k=s["k"], y=o["y"])))
    for (t, i, _), q in zip(case["queries"], obs["queries"]):
        s = shadow[t]
        n = len(s["x"])
        if -n <= i < n:
            if isinstance(q, dict) or not tree_same(q[0], s["x"][i]) or not _cost_same(q[1], s["y"][i], exact):
                out.append(_fail("nth_roundtrip", "Monitor.__getitem__", "int-index", dict(monitor=t, index=i, got=q)))
        elif q != {"error": "IndexError"}:
            out.append(_fail("nth_roundtrip", "Monitor.__getitem__", "out-of-range", dict(monitor=t, index=i, got=q)))
    return out


def _log_expected(case):
    """the calls that must be in the file: (step, id, y, x-as-list)"""
    exp, n = [], 0
    iv = case["interval"]
    for o in case["ops"]:
        if o[0] == "call":
            if iv and n % iv == 0:
                x = o[2] if isinstance(o[2], list) else [o[2]]
                exp.append(([n] if o[5] is None else [n, 5 if o[5] == "np5" else o[5]], o[4], x))
            n += 1
    return exp


def _oracle_log(case, obs):
    out = []
    exp = _log_expected(case)
    exact = _exact_k([case["k"]])
    for name in ("reader", "reader_noiter", "history"):
        r = obs[name]
        if "error" in r:
            if name == "history" and exp and (exp[0][2] == [] or any(isinstance(v, list) for e in exp for v in e[2])):
                continue   # read_history transposes: needs flat parameter vectors, the first one non-empty
            out.append(_fail("log_roundtrip", "munge." + ("logfile_reader" if name != "history" else "read_history"), r["error"], r))
            continue
        if name != "reader_noiter" and exp:
            if r["step"] != [e[0] for e in exp]:
                out.append(_fail("log_iterations", "munge.logfile_reader", "step", dict(got=r["step"], want=[e[0] for e in exp])))
        if not _cost_same(r["cost"], [e[1] for e in exp], exact):
            out.append(_fail("log_costs", "munge.logfile_reader", "cost", dict(got=r["cost"], want=[e[1] for e in exp])))
        if name != "history":
            if not tree_same(r["params"], [e[2] for e in exp]):
                out.append(_fail("log_params", "munge.logfile_reader", "params", dict(got=r["params"], want=[e[2] for e in exp])))
        else:
            xs = [e[2] for e in exp]
            rect = xs and all(len(x) == len(xs[0]) and x and not any(isinstance(v, list) for v in x) for x in xs)
            if rect:
                want = [[[x[j]] for x in xs] for j in range(len(xs[0]))]
                if not tree_same(r["params"], want):
                    out.append(_fail("log_params", "munge.read_history", "params", dict(got=r["params"], want=want)))
    # hypotheses of the codec theorems, checked on the real printer: no blank / newline inside a printed number
    for t in obs["tokens"]:
        toks = list(t["x"]) + (t["y"] if isinstance(t["y"], list) else [t["y"]]) + ([t["id"]] if t["id"] else [])
        if t["flat"] and any((" " in s or "\n" in s or s == "") for s in toks):
            out.append(_fail("printer_hypothesis", "repr", "blank-in-number", toks))
    return out


def _has_np(case, part):
    for xf, x, yf, y, i in case["recs"]:
        if part == "x" and xf in ("ndarray",):
            return True
        if part == "y" and yf in ("npfloat",):
            return True
    return False


def _oracle_files(case, obs):
    out = []
    recs = case["recs"]
    xs = [r[1] for r in recs]
    ys = [r[3] for r in recs]
    ids = [r[4] for r in recs]
    n = len(recs)
    k = case["k"]
    exact = _exact_k([k])
    npx, npy = _has_np(case, "x"), _has_np(case, "y")
    mixed = n > 0 and recs[0][2] == "npfloat" and any(r[2] != "npfloat" for r in recs)
    dim = len(xs[0]) if xs else 0

    def want_ids(got, site):
        if n == 0:
            return
        if got is None or isinstance(got, int) or len(got) != n:
            out.append(_fail("ids_roundtrip", site, "ids", got)); return
        allnone = all(i is None for i in ids)
        seen = {}
        for t, i in zip(got, ids):
            cnt = seen.get(i, 0); seen[i] = cnt + 1
            if (allnone and t != [cnt]) or (not allnone and t != [cnt, i]):
                out.append(_fail("ids_roundtrip", site, "ids", dict(got=got, want_ids=ids))); return

    def check(name, site, params_want, np_in_params, cost_np, kbug):
        if obs.get(name.split("_")[0] + "_written") is not True and name.split("_")[0] in ("raw", "support", "converge"):
            return
        r = obs[name]
        if "error" in r:
            if r["error"] == "NameError" and (np_in_params or cost_np):
                out.append(_fail("file_roundtrip", "munge.write_raw_file", "numpy-scalar-repr", dict(reader=name, err=r)))
            else:
                out.append(_fail("file_roundtrip", site, r["error"], dict(reader=name, err=r)))
            return
        if params_want is not None and not tree_same(r["params"], params_want):
            out.append(_fail("file_params", site, "params", dict(reader=name, got=r["params"], want=params_want)))
        if not _cost_same(r["cost"], ys, exact):
            if kbug and k is not None and float(k) != 1.0 and _cost_same(r["cost"], [_divk(y, k) for y in ys], False):
                out.append(_fail("file_costs", site, "k-applied-twice", dict(reader=name, got=r["cost"], want=ys, k=k)))
            else:
                out.append(_fail("file_costs", site, "cost", dict(reader=name, got=r["cost"], want=ys, k=k)))
        if "ids" in r:
            want_ids(r["ids"], site)

    # raw
    if obs["raw_written"] is not True:
        out.append(_fail("file_write", "munge.write_raw_file", obs["raw_written"]["error"], None))
    else:
        for nm in ("raw_raw", "raw_noiter", "raw_import"):
            check(nm, "munge.read_raw_file" if nm != "raw_import" else "munge.read_import", xs, npx, npy, False)
    # support / converge
    supp = [[[x[j]] for x in xs] for j in range(dim)] if n else []
    conv = [[[v] for v in x] for x in xs]
    for fmt, want_file, want_read in (("support", supp, [[x[j] for x in xs] for j in range(dim)] if n else []),
                                      ("converge", conv, [[list(x)] for x in xs])):
        w = obs[fmt + "_written"]
        if w is not True:
            if w["error"] == "AttributeError" and mixed:
                out.append(_fail("file_write", "munge.raw_to_converge", "mixed-scalar-types", w))
            else:
                out.append(_fail("file_write", "munge.write_%s_file" % fmt, w["error"], w))
            continue
        # costs in these files have been through tolist(): numpy costs are plain floats there
        check(fmt + "_raw", "munge.write_%s_file" % fmt, want_file, npx, False, True)
        check(fmt + "_read", "munge.write_%s_file" % fmt, [want_read] if (fmt == "support" and n) else (want_read if fmt == "converge" else []), npx, False, True)
        if fmt == "support":
            check("support_history", "munge.write_support_file", want_file, npx, False, True)
    # monitor as a history source
    for nm, want in (("mon_history", supp), ("mon_traj", xs)):
        r = obs[nm]
        if "error" in r:
            if nm == "mon_history" and mixed and r["error"] in ("AttributeError", "TypeError"):
                out.append(_fail("file_write", "munge.raw_to_converge", "mixed-scalar-types", r))
            else:
                out.append(_fail("history_of_monitor", "munge." + ("read_history" if nm == "mon_history" else "read_trajectories"), r["error"], r))
            continue
        if not tree_same(r["params"], want) or not _cost_same(r["cost"], ys, exact):
            out.append(_fail("history_of_monitor", "munge." + ("read_history" if nm == "mon_history" else "read_trajectories"), "value", r))
        want_ids(r["ids"], "munge._process_ids")
    return out


def _divk(y, k):
    if isinstance(y, list):
        return [_divk(v, k) for v in y]
    try:
        return enc(dec(y) / k)
    except ZeroDivisionError:
        return "nan"


def _oracle_ids(case, obs):
    out = []
    ids, n = _py_ids(case["ids"]), case["n"]
    r = obs["process"]
    if isinstance(r, dict):
        return [_fail("ids_roundtrip", "munge._process_ids", r["error"], r)]
    if isinstance(ids, list) and ids and not isinstance(ids[0], tuple) and n >= len(ids):
        # per-entry ids: the id column comes back, iterations count occurrences of the same id
        if obs.get("reduce") != [i for i in ids]:
            out.append(_fail("ids_roundtrip", "munge._reduce_ids", "roundtrip", dict(ids=ids, got=obs.get("reduce"), steps=r)))
        seen = {}
        for t, i in zip(r, ids):
            c = seen.get(i, 0); seen[i] = c + 1
            if t[0] != c:
                out.append(_fail("ids_roundtrip", "munge._process_ids", "iteration-count", dict(ids=ids, got=r))); break
    if isinstance(ids, int) and n:
        if r != [[i, ids] for i in range(n)]:
            out.append(_fail("ids_roundtrip", "munge._process_ids", "single-id", r))
    if ids is None and n:
        if r != [[i] for i in range(n)]:
            out.append(_fail("ids_roundtrip", "munge._process_ids", "no-id", r))
    if isinstance(ids, list) and ids and isinstance(ids[0], tuple):
        if r != [list(t) for t in ids][:n]:
            out.append(_fail("ids_roundtrip", "munge._process_ids", "tuples", r))
    return out


def oracle(case, obs):
    if "__exception__" in obs:
        return [_fail("no-crash", "harness/" + case["kind"], obs["__exception__"], obs.get("__msg__"))]
    k = case["kind"]
    if k == "ops":
        return _oracle_ops(case, obs)
    if k == "log":
        return _oracle_log(case, obs)
    if k == "files":
        return _oracle_files(case, obs)
    if k == "ids":
        return _oracle_ids(case, obs)
    if k == "pick":
        return _oracle_pick(case, obs)
    if k == "call0d":
        if "error" in obs:
            if obs["error"] == "TypeError" and case["k"] is not None:
                return [_fail("len_after_n_calls", "tools._imultiply", "zero-dim-array-cost-with-k", obs)]
            return [_fail("len_after_n_calls", "Monitor.__call__", obs["error"], obs)]
        if obs["len"] != 1 or not tree_same(obs["y"], [case["y"]]):
            return [_fail("y_roundtrip_k_transparent", "Monitor.y", "zero-dim", obs)]
        return []
    if k == "selfop":
        n = case["n"]
        want = dict(x=[[float(i)] for i in range(n)] * 2, y=[i + 0.5 for i in range(n)] * 2, id=list(range(n)) * 2)
        if "error" in obs:
            if case["op"] == "prepend" and obs["error"] == "CaseTimeout":
                return [_fail("prepend_is_concat", "Monitor.prepend", "self-argument-nonterminating", obs)]
            if case["op"] == "extend" and case["k"] is not None and obs["error"] in ("MemoryError", "CaseTimeout"):
                return [_fail("extend_is_concat", "Monitor.extend", "self-argument-unbounded-growth", obs)]
            return [_fail("self_combination", "Monitor." + case["op"], obs["error"], obs)]
        if not tree_same(obs["x"], want["x"]) or not tree_same(obs["y"], want["y"]) or obs["id"] != want["id"]:
            return [_fail("self_combination", "Monitor." + case["op"], "value", obs)]
        if obs["arg_len"] != (n if case["op"] == "add" else 2 * n):
            return [_fail("argument_unchanged", "Monitor.__add__", "self-argument", obs)]
        return []
    if k == "rewrite":
        out = []
        for tag, vals in (("first", case["a"]), ("second", case["b"])):
            r = obs[tag]
            want_p = [[vals[0]]] if case["writer"] == "raw" else [[[vals[0]]]]
            if "error" in r:
                out.append(_fail("file_roundtrip", "munge.read_import", r["error"], r))
            elif not tree_same(r["params"], want_p) or not tree_same(r["cost"], [vals[1]]):
                first_p = [[case["a"][0]]] if case["writer"] == "raw" else [[[case["a"][0]]]]
                if tag == "second" and tree_same(r["params"], first_p) and tree_same(r["cost"], [case["a"][1]]):
                    out.append(_fail("file_roundtrip", "munge.read_import", "stale-module-cache", dict(got=r, want=vals)))
                else:
                    out.append(_fail("file_roundtrip", "munge.read_import", "value", dict(got=r, want=vals)))
        return out
    return []


# ------------------------------------------------------------------ Coq side

def coq_preamble():
    return r"""
From Coq Require Import String Ascii PrimFloat.
From MV Require Import Common.Num Pure.Monitor Pure.LogCodec.
Open Scope bool_scope.
Inductive pv := PF (f : PrimFloat.float) | PL (l : list pv).
(* identical as printed: NaN = NaN, +0 and -0 distinguished *)
Definition feqs (x y : PrimFloat.float) : bool :=
  (negb (PrimFloat.eqb x x) && negb (PrimFloat.eqb y y)) ||
  (PrimFloat.eqb x y && PrimFloat.eqb (PrimFloat.div PrimFloat.one x) (PrimFloat.div PrimFloat.one y)).
Fixpoint leqb {A} (e : A -> A -> bool) (a b : list A) : bool :=
  match a, b with [] , [] => true | x :: a', y :: b' => e x y && leqb e a' b' | _, _ => false end.
Fixpoint pv_eqb (a b : pv) : bool :=
  match a, b with
  | PF x, PF y => feqs x y
  | PL l, PL m => (fix go (l m : list pv) : bool :=
                     match l, m with [], [] => true | x :: l', y :: m' => pv_eqb x y && go l' m' | _, _ => false end) l m
  | _, _ => false
  end.
Definition cost_eqb (a b : cost NumF) : bool :=
  match a, b with CS x, CS y => feqs x y | CV l, CV m => leqb feqs l m | _, _ => false end.
Definition oeqb {A} (e : A -> A -> bool) (a b : option A) : bool :=
  match a, b with Some x, Some y => e x y | None, None => true | _, _ => false end.
Definition mon := monitor NumF pv Z Z.
Definition mon_is (m : mon) (x : list pv) (y : list (cost NumF)) (id : list (option Z)) (inf : list Z)
                  (k : option PrimFloat.float) (n : nat) : bool :=
  leqb pv_eqb (get_x m) x && leqb cost_eqb (get_y m) y && leqb (oeqb Z.eqb) (get_id m) id &&
  leqb Z.eqb (minfo m) inf && oeqb PrimFloat.eqb (mk m) k && Nat.eqb (mlen m) n.
(* the info list is not compared downstream of a slice (whether a slice keeps it is not part of the property) *)
Definition mon_is' (m : mon) (x : list pv) (y : list (cost NumF)) (id : list (option Z))
                  (k : option PrimFloat.float) (n : nat) : bool :=
  leqb pv_eqb (get_x m) x && leqb cost_eqb (get_y m) y && leqb (oeqb Z.eqb) (get_id m) id &&
  oeqb PrimFloat.eqb (mk m) k && Nat.eqb (mlen m) n.
Definition q_is (r : option (pv * cost NumF)) (e : option (pv * cost NumF)) : bool :=
  oeqb (fun a b => pv_eqb (fst a) (fst b) && cost_eqb (snd a) (snd b)) r e.
Definition oNew (k : option float) : op NumF pv Z Z := @ONew NumF pv Z Z k.
Definition oCall (t : nat) (x : pv) (y : cost NumF) (id : option Z) : op NumF pv Z Z := @OCall NumF pv Z Z t x y id.
Definition oInfo (t : nat) (m : Z) : op NumF pv Z Z := @OInfo NumF pv Z Z t m.
Definition oSlice (t : nat) (s : pyslice) : op NumF pv Z Z := @OSlice NumF pv Z Z t s.
Definition oAdd (a b : nat) : op NumF pv Z Z := @OAdd NumF pv Z Z a b.
Definition oExtend (a b : nat) : op NumF pv Z Z := @OExtend NumF pv Z Z a b.
Definition oPrepend (a b : nat) : op NumF pv Z Z := @OPrepend NumF pv Z Z a b.
Definition newmon (k : option float) : mon := new_monitor NumF pv Z Z k.
Definition run0 (ops : list (op NumF pv Z Z)) := run (@nil mon) ops.
Definition nthm (st : list mon) (j : nat) : mon := nth j st (@new_monitor NumF pv Z Z None).
(* codec instance: a printed number IS its token *)
Definition seqb (a b : str) : bool := leqb Ascii.eqb a b.
Definition tshow (t : str) : str := t.
Definition tread (t : str) : option str := Some t.
Definition zshow (tab : list (Z * str)) (z : Z) : str :=
  match find (fun p => Z.eqb (fst p) z) tab with Some p => snd p | None => [] end.
Definition zread (tab : list (Z * str)) (s : str) : option Z :=
  match find (fun p => seqb (snd p) s) tab with Some p => Some (fst p) | None => None end.
Definition costv_eqb (a b : costv str) : bool :=
  match a, b with YS x, YS y => seqb x y | YV l, YV m => leqb seqb l m | _, _ => false end.
Definition entry_eqb (a b : entry str) : bool :=
  Z.eqb (e_step _ a) (e_step _ b) && oeqb Z.eqb (e_id _ a) (e_id _ b) && costv_eqb (e_cost _ a) (e_cost _ b) &&
  leqb seqb (e_x _ a) (e_x _ b).
Definition fll := list (list (list PrimFloat.float)).
Definition fll_eqb (a b : fll) : bool := leqb (leqb (leqb feqs)) a b.
Definition stepid_eqb (a b : stepid) : bool :=
  match a, b with S1 i, S1 j => Nat.eqb i j | S2 i x, S2 j y => Nat.eqb i j && oeqb Z.eqb x y | _, _ => false end.
Definition ids_out_eqb (a b : ids_out) : bool :=
  match a, b with PNone, PNone => true | PInt x, PInt y => Z.eqb x y | PList l, PList m => leqb stepid_eqb l m | _, _ => false end.
"""


def _pv(t):
    if isinstance(t, list):
        return "(PL %s)" % lst([_pv(i) for i in t])
    return "(PF %s)" % flit(dec(t))


def _cost(y):
    if isinstance(y, list):
        return "(CV (N:=NumF) %s)" % lst([flit(dec(v)) for v in y])
    return "(CS (N:=NumF) %s)" % flit(dec(y))


def _oz(i):
    return opt(None if i is None else (5 if i == "np5" else i), zlit)


def _kopt(k):
    return opt(None if k is None else flit(float(dec(k))))


def _terms_ops(case, obs):
    ops = []
    for o in case["ops"]:
        if o[0] == "new":
            ops.append("oNew %s" % _kopt(o[1]))
        elif o[0] == "call":
            ops.append("oCall %s %s %s %s" % (natlit(o[1]), _pv(o[3]), _cost(o[5]), _oz(o[6])))
        elif o[0] == "info":
            ops.append("oInfo %s %s" % (natlit(o[1]), zlit(o[2])))
        elif o[0] == "slice":
            ops.append("oSlice %s (mkSlice %s %s %s)" % (natlit(o[1]), opt(o[2], zlit), opt(o[3], zlit), opt(o[4], zlit)))
        else:
            ops.append("%s %s %s" % ({"add": "oAdd", "extend": "oExtend", "prepend": "oPrepend"}[o[0]], natlit(o[1]), natlit(o[2])))
    opsl = "(%s : list (op NumF pv Z Z))" % lst(ops)
    T = []
    flags = lst([blit(f is True) for f in obs["flags"]])
    T.append("leqb Bool.eqb (snd (run0 %s)) %s" % (opsl, flags))
    T.append("Nat.eqb (List.length (fst (run0 %s))) %s" % (opsl, natlit(len(obs["store"]))))
    shadow = _shadow_ops(case)[0]
    for j, m in enumerate(obs["store"]):
        if j < len(shadow) and not shadow[j]["info_ok"]:
            T.append("mon_is' (nthm (fst (run0 %s)) %s) (%s : list pv) (%s : list (cost NumF)) (%s : list (option Z)) %s %s" % (
                opsl, natlit(j), lst([_pv(x) for x in m["x"]]), lst([_cost(y) for y in m["y"]]), lst([_oz(i) for i in m["id"]]),
                _kopt(m["k"]), natlit(m["len"])))
            continue
        info = lst([zlit(int(s[3:])) for s in m["info"]])
        T.append("mon_is (nthm (fst (run0 %s)) %s) (%s : list pv) (%s : list (cost NumF)) (%s : list (option Z)) (%s : list Z) %s %s" % (
            opsl, natlit(j), lst([_pv(x) for x in m["x"]]), lst([_cost(y) for y in m["y"]]), lst([_oz(i) for i in m["id"]]),
            info, _kopt(m["k"]), natlit(m["len"])))
    for (t, i, _), q in zip(case["queries"], obs["queries"]):
        e = "None" if isinstance(q, dict) else "(Some (%s, %s))" % (_pv(q[0]), _cost(q[1]))
        T.append("q_is (getitem_int (nthm (fst (run0 %s)) %s) %s) %s" % (opsl, natlit(t), zlit(i), e))
    return T


def _s(text):
    """python str -> Coq list ascii (non-printable / non-ASCII characters make the case oracle-only)"""
    return "(lit %s)" % slit(text)


def _printable(s):
    return all(32 <= ord(c) < 127 for c in s)


def _terms_log(case, obs):
    if isinstance(obs.get("reader"), dict) and "error" in obs["reader"]:
        return []
    toks = obs["tokens"]
    if not all(t["flat"] for t in toks):
        return []
    text = obs["text"]
    lines = text.split("\n")
    if not lines or not lines[0].startswith("# "):
        return []
    body = "\n".join(lines[1:])   # without the date line
    if not _printable(body.replace("\n", "")):
        return []
    # the file as a Coq character list: lines joined by newline (ascii 10)
    def coqtext(ls):
        return "(%s)" % " ++ ".join(["%s ++ [c_nl]" % _s(l) for l in ls] + ["[]"])
    blines = lines[1:-1]
    ncalls = sum(1 for o in case["ops"] if o[0] == "call")
    idtab, lops, n = {i: str(i) for i in range(ncalls)}, [], 0
    calls = iter(toks)
    for o in case["ops"]:
        if o[0] == "info":
            if "\n" in o[1]:
                return []
            lops.append("LInfo %s" % _s(o[1]))
        else:
            t = next(calls)
            idv = None if o[5] is None else (1005 if o[5] == "np5" else o[5])
            if idv is not None:
                if idtab.get(idv, t["id"]) != t["id"]:
                    return []
                idtab[idv] = t["id"]
            y = "(YV %s)" % lst([_s(v) for v in t["y"]]) if isinstance(t["y"], list) else "(YS %s)" % _s(t["y"])
            lops.append("LCall %s %s %s" % (opt(idv, zlit), y, lst([_s(v) for v in t["x"]])))
            n += 1
    # integer printer: iteration numbers print as decimal, ids as Python printed them; a clash makes the table ambiguous
    if len(set(idtab.values())) != len(idtab):
        return []
    tab = "(%s : list (Z * str))" % lst(["(%s, %s)" % (zlit(z), _s(s)) for z, s in sorted(idtab.items())])
    iv = case["interval"] or 0
    label = case["label"] or "ChiSquare"
    header = "LComment %s" % _s("___#___  __%s__  __params__" % label)
    model = "(%s :: log_lines str %s 0 (%s : list (lop str)))" % (header, natlit(iv), lst(lops))
    T = []
    T.append("seqb (format_file str tshow (zshow %s) %s) %s" % (tab, model, coqtext(blines)))
    T.append("match parse_file str tread (zread %s) %s with Some es => leqb entry_eqb es (entries str %s) | None => false end"
             % (tab, coqtext(blines), model))
    return T


def _fl3(t):
    return "(%s : fll)" % lst([lst([lst([flit(dec(v)) for v in b]) for b in a]) for a in t])


def _stepids(s):
    if s is None:
        return "PNone"
    if isinstance(s, int):
        return "(PInt %s)" % zlit(s)
    return "(PList %s)" % lst(["(S1 %s)" % natlit(t[0]) if len(t) == 1 else "(S2 %s %s)" % (natlit(t[0]), opt(t[1], zlit)) for t in s])


def _terms_files(case, obs):
    T = []
    recs = case["recs"]
    n = len(recs)
    traj = "(%s : list (list PrimFloat.float))" % lst([lst([flit(dec(v)) for v in r[1]]) for r in recs])
    ids = "(%s : list (option Z))" % lst([_oz(r[4]) for r in recs])
    k = _kopt(case["k"])
    calls = lst(["(%s, %s, %s)" % (_pv(r[1]), _cost(r[3]), _oz(r[4])) for r in recs])
    mon = "(call_all (newmon %s) (%s : list (record NumF pv Z)))" % (k, calls)

    def ok(name):
        r = obs.get(name)
        return isinstance(r, dict) and "error" not in r
    if ok("raw_raw"):
        T.append("leqb cost_eqb (raw_file_cost %s) (%s : list (cost NumF))" % (mon, lst([_cost(y) for y in obs["raw_raw"]["cost"]])))
        T.append("ids_out_eqb (file_ids %s %s) %s" % (ids, natlit(n), _stepids(obs["raw_raw"]["ids"])))
    if ok("support_raw") and n:
        T.append("fll_eqb (support_params %s) %s" % (traj, _fl3(obs["support_raw"]["params"])))
        T.append("leqb cost_eqb (support_file_cost %s) (%s : list (cost NumF))" % (mon, lst([_cost(y) for y in obs["support_raw"]["cost"]])))
        if ok("support_read"):
            T.append("fll_eqb (read_support %s) %s" % (_fl3(obs["support_raw"]["params"]), _fl3(obs["support_read"]["params"])))
    if ok("converge_raw") and n:
        T.append("fll_eqb (converge_params %s) %s" % (traj, _fl3(obs["converge_raw"]["params"])))
        if ok("converge_read"):
            T.append("fll_eqb (read_converge %s) %s" % (_fl3(obs["converge_raw"]["params"]), _fl3(obs["converge_read"]["params"])))
    if ok("mon_history") and n:
        T.append("fll_eqb (support_params %s) %s" % (traj, _fl3(obs["mon_history"]["params"])))
        T.append("ids_out_eqb (process_ids (IdsList %s) %s) %s" % (ids, natlit(n), _stepids(obs["mon_history"]["ids"])))
    return T


def _terms_ids(case, obs):
    r = obs["process"]
    if isinstance(r, dict):
        return []
    ids, n = case["ids"], case["n"]
    if ids is None:
        a = "IdsNone"
    elif isinstance(ids, int):
        a = "(IdsInt %s)" % zlit(ids)
    elif ids and isinstance(ids[0], list) or (ids == [] and False):
        a = "(IdsTuples %s)" % lst(["(S1 %s)" % natlit(t[1]) if len(t) == 2 else "(S2 %s %s)" % (natlit(t[1]), opt(t[2], zlit)) for t in ids])
    else:
        a = "(IdsList (%s : list (option Z)))" % lst([opt(i, zlit) for i in ids])
    T = ["ids_out_eqb (process_ids %s %s) %s" % (a, natlit(n), _stepids(r))]
    if isinstance(r, list) and isinstance(obs.get("reduce"), list):
        T.append("leqb (oeqb Z.eqb) (reduce_ids %s) (%s : list (option Z))" % (
            lst(["(S1 %s)" % natlit(t[0]) if len(t) == 1 else "(S2 %s %s)" % (natlit(t[0]), opt(t[1], zlit)) for t in r]) if r else "(@nil stepid)",
            lst([opt(i, zlit) for i in obs["reduce"]])))
    return T


def coq_terms(case, obs):
    if "__exception__" in obs:
        return []
    k = case["kind"]
    if k == "ops":
        return _terms_ops(case, obs)
    if k == "log":
        return _terms_log(case, obs)
    if k == "files":
        return _terms_files(case, obs)
    if k == "ids":
        return _terms_ids(case, obs)
    return []


def classify(case, obs):
    k = case["kind"]
    tags = ["kind:" + k]
    nontrivial = False
    if k == "ops":
        tags.append("vclass:" + case["vclass"])
        for o in case["ops"]:
            if o[0] in ("slice", "add", "extend", "prepend"):
                tags.append("op:" + o[0])
            if o[0] == "new":
                tags.append("k:%s" % (o[1],))
        if isinstance(obs, dict) and "store" in obs:
            nontrivial = any(m["len"] >= 2 for m in obs["store"])
            if any(f is not True for f in obs["flags"]):
                tags.append("ops:with-error")
    elif k == "log":
        n = sum(1 for o in case["ops"] if o[0] == "call")
        nontrivial = n >= 2
        tags += ["interval:%s" % case["interval"], "k:%s" % (case["k"],), "vclass:" + case["vclass"]]
        if isinstance(obs, dict) and "tokens" in obs:
            tags.append("codec-modelled:%s" % all(t["flat"] for t in obs["tokens"]))
    elif k == "files":
        nontrivial = len(case["recs"]) >= 2
        tags += ["k:%s" % (case["k"],), "n:%d" % len(case["recs"])]
        if _has_np(case, "x") or _has_np(case, "y"):
            tags.append("numpy-scalars")
    elif k == "ids":
        nontrivial = isinstance(case["ids"], list) and len(case["ids"]) >= 2
    return json.dumps(case, sort_keys=True), nontrivial, tags


def shrink(case):
    k = case["kind"]
    if k == "ops":
        ops = case["ops"]
        for i in range(len(ops) - 1, -1, -1):
            if ops[i][0] in ("call", "info", "extend", "prepend") or i == len(ops) - 1:
                nstore = sum(1 for o in ops[:i] + ops[i + 1:] if o[0] in ("new", "slice", "add"))
                qs = [q for q in case["queries"] if q[0] < nstore]
                yield dict(case, ops=ops[:i] + ops[i + 1:], queries=qs)
        for i in range(len(case["queries"])):
            yield dict(case, queries=case["queries"][:i] + case["queries"][i + 1:])
    elif k == "log":
        ops = case["ops"]
        for i in range(len(ops)):
            yield dict(case, ops=ops[:i] + ops[i + 1:])
    elif k == "files":
        r = case["recs"]
        for i in range(len(r)):
            yield dict(case, recs=r[:i] + r[i + 1:])
