"""C10 helpers: case generators, the stub solver / driver of mystic.termination, the oracle (documented meaning)."""
import math, json, io, contextlib, warnings, itertools
from fractions import Fraction as Fr

INF = math.inf
ETA = 1e-20
WARN = "Warning: Invalid termination condition (nPop < 2)"
FACTORIES = ["VTR", "ChangeOverGeneration", "NormalizedChangeOverGeneration", "CandidateRelativeTolerance",
             "SolutionImprovement", "NormalizedCostTarget", "VTRChangeOverGeneration", "PopulationSpread",
             "GradientNormTolerance", "EvaluationLimits", "TimeLimits", "SolverInterrupt"]
HIST_CONDS = ["VTR", "ChangeOverGeneration", "NormalizedChangeOverGeneration", "NormalizedCostTarget", "VTRChangeOverGeneration"]

# ====================================================================== generators

def _coarse(rng):
    return rng.choice([-2.0, -1.0, -0.5, 0.0, 0.0, 0.5, 1.0, 1.0, 1.5, 2.0, 3.0])

def _grid(rng):
    return rng.randint(-32, 32) / 8.0

def _generic(rng):
    return rng.choice([rng.uniform(-3, 3), rng.gauss(0, 1) * 10 ** rng.randint(-8, 8), rng.random()])

def _val(rng, style):
    return _coarse(rng) if style == 0 else _grid(rng) if style == 1 else _generic(rng)

def gen_hist(rng):
    n = rng.choice([0, 0, 1, 1, 2, 2, 3, 3, 4, 5, 6, 8, 12, 20, 31, 40, rng.randint(0, 40)])
    kind = rng.choice(["plateau", "stairs", "stairs", "coarse", "grid", "generic", "infprefix", "allinf", "neginf", "zigzag"])
    if n == 0:
        return []
    if kind == "plateau":
        v = _val(rng, rng.randint(0, 2)); h = [v] * n
    elif kind == "stairs":
        style = rng.randint(0, 2); v = abs(_val(rng, style)) + 4; h = []
        for _ in range(n):
            if rng.random() < 0.4:
                v = v - abs(_val(rng, style)) * rng.choice([1, 1, 0.5, 0.125])
            h.append(v)
    elif kind in ("coarse", "grid", "generic"):
        style = {"coarse": 0, "grid": 1, "generic": 2}[kind]
        h = [_val(rng, style) for _ in range(n)]
        if rng.random() < 0.5:
            h.sort(reverse=True)
    elif kind == "infprefix":
        k = rng.randint(1, n); v = _coarse(rng) + 3
        h = [INF] * k + [v - 0.5 * (i // 2) for i in range(n - k)]
    elif kind == "allinf":
        h = [rng.choice([INF, INF, INF, -INF]) if rng.random() < 0.2 else INF for _ in range(n)]
    elif kind == "neginf":
        k = rng.randint(0, n - 1); h = [_coarse(rng) for _ in range(k)] + [-INF] * (n - k)
    else:
        a, b = _coarse(rng), _coarse(rng); h = [a if i % 2 == 0 else b for i in range(n)]
    return [float(x) for x in h]

def gen_window(rng, n):
    c = [None, 0, 1, 1, 2, 2, 3, max(0, n - 1), max(0, n - 1), n, n, n + 1, n + 5, 30, 10, rng.randint(0, 42)]
    g = rng.choice(c)
    r = rng.random()
    if r < 0.04:
        g = -rng.randint(1, 4)             # negative window: hist[-gens] indexes from the front, may raise
    elif r < 0.14 and g is not None:
        g = g + rng.choice([0.0, 0.5, 0.99])   # float window: int() truncates
    return g

def gen_tol(rng, tie=None):
    """tolerance: boundary values, or the exact value at which the inequality is tight and its neighbours"""
    r = rng.random()
    if tie is not None and tie == tie and r < 0.55:
        t = float(tie)
        if math.isinf(t):
            return t
        return rng.choice([t, t, t, math.nextafter(t, -INF), math.nextafter(t, INF), -t, t * 2, t / 2])
    return rng.choice([0.0, 0.0, 5e-324, 1e-300, 1e-12, 1e-6, 0.005, 0.125, 0.5, 1.0, 2.0, 1e300, INF,
                       -0.0, -1e-6, -0.5, -1.0, -1.0, -INF])

def gen_pop(rng, npop=None, dim=None, style=None):
    npop = rng.choice([0, 1, 1, 2, 2, 3, 4, 6]) if npop is None else npop
    dim = rng.choice([1, 1, 2, 3, 5, 7]) if dim is None else dim
    style = rng.randint(0, 2) if style is None else style
    mode = rng.choice(["same", "near", "rand", "rand", "inf"])
    base = [_val(rng, style) for _ in range(dim)]
    pop = []
    for i in range(npop):
        if mode == "same":
            row = list(base)
        elif mode == "near":
            row = [b + rng.choice([0, 0, 0.125, -0.125, 0.5, b * 0.5, -b * 0.5]) for b in base]
        else:
            row = [_val(rng, style) for _ in range(dim)]
        pop.append([float(x) for x in row])
    if mode == "inf" and npop:
        for _ in range(rng.randint(1, 2)):
            pop[rng.randrange(npop)][rng.randrange(dim)] = rng.choice([INF, -INF])
    return pop

def gen_view(rng, focus=None):
    style = rng.randint(0, 2)
    pop = gen_pop(rng, style=style)
    dim = len(pop[0]) if pop else rng.choice([1, 2, 3])
    npe = len(pop) if rng.random() < 0.85 else rng.choice([0, 1, 2, 3])
    pe_mode = rng.choice(["same", "rand", "inf", "rand"])
    v0 = _val(rng, style)
    popE = [v0 if pe_mode == "same" else (INF if (pe_mode == "inf" and rng.random() < 0.5) else _val(rng, style)) for _ in range(npe)]
    big = focus == "SolutionImprovement" and rng.random() < 0.2 or focus == "GradientNormTolerance" and rng.random() < 0.2
    bdim = rng.choice([8, 9, 12]) if big else dim          # >= 8 summands: dyadic values only (pairwise summation)
    bstyle = min(style, 1) if big else style
    best = [float(_val(rng, bstyle)) for _ in range(bdim)]
    def near(b):
        return float(b + rng.choice([0, 0, 0, 0.125, -0.125, 0.5, 1.0])) if bstyle < 2 else float(b + rng.choice([0, 0, rng.gauss(0, 1e-3)]))
    if rng.random() < 0.6:
        trial = [near(b) for b in best]
    else:
        trial = [[near(b) for b in best] for _ in range(rng.randint(1, 4))]
    if rng.random() < 0.08:
        k = rng.randrange(bdim); best[k] = INF
        if rng.random() < 0.5:
            (trial if not isinstance(trial[0], list) else trial[0])[k] = INF
    gens = rng.choice([0, 1, 2, 3, 5, 10, 30, rng.randint(0, 50)])
    fcalls = rng.choice([0, 1, 2, 5, 10, 100, rng.randint(0, 200)])
    gmode = rng.choice(["none", "attr", "attr"])
    if any(math.isinf(b) for b in best):
        gmode = "attr"        # a finite-difference gradient at an infinite point is NaN (numpy.max / builtin max differ on NaN)
    def gvec():
        g = [float(rng.choice([0.0, 0.0, _val(rng, bstyle)])) for _ in range(bdim)]
        if rng.random() < 0.06:
            g[rng.randrange(bdim)] = rng.choice([INF, -INF])
        return g
    gradient = [gvec() for _ in range(rng.randint(1, 3))] if gmode == "attr" else None
    lin = [float(_coarse(rng)) for _ in range(bdim)]
    t0 = rng.choice([0.0, 100.0, 1.5e9])
    dt = rng.choice([0.0, 0.5, 1.0, 2.0, 86400.0, 1e-3, rng.random() * 10])
    return dict(hist=gen_hist(rng), pop=pop, popE=[float(x) for x in popE], best=best, trial=trial, gens=gens, fcalls=fcalls,
                exit=rng.random() < 0.3, gradient=gradient, lin=lin, tstart=t0, tnow=t0 + dt)

def _idx(h, g):
    """hist[-int(g)] read like Python; None if it would raise"""
    g = 0 if g is None else int(g)
    try:
        return h[-g]
    except IndexError:
        return None

def _fsub(a, b):
    with warnings.catch_warnings():
        warnings.simplefilter("ignore")
        try:
            return a - b
        except Exception:
            return math.nan

def gen_cond(rng, name, view):
    """keyword settings for factory `name`, tie-targeted on `view`"""
    h = view["hist"]; n = len(h)
    last = h[-1] if h else 0.0
    if name == "VTR":
        target = rng.choice([0.0, 0.0, last, _coarse(rng), last - 0.5, INF if rng.random() < 0.1 else 1.0])
        return dict(tolerance=gen_tol(rng, abs(_fsub(last, target))), target=float(target))
    if name in ("ChangeOverGeneration", "NormalizedChangeOverGeneration"):
        g = gen_window(rng, n); a = _idx(h, g) if h else None
        if name == "ChangeOverGeneration":
            tie = _fsub(a, last) if a is not None else None
        else:
            tie = None
            if a is not None and abs(a) + abs(last) not in (0.0, INF) and abs(a) + abs(last) == abs(a) + abs(last):
                tie = 2.0 * (a - last) / (abs(a) + abs(last))
        return dict(tolerance=gen_tol(rng, tie), generations=g)
    if name == "CandidateRelativeTolerance":
        pop, pe = view["pop"], view["popE"]
        xt = ft = None
        if len(pop) > 1:
            xt = max(abs(_fsub(x, x0)) for r in pop[1:] for x, x0 in zip(r, pop[0]))
        if len(pe) > 1:
            ft = max(abs(_fsub(pe[0], f)) for f in pe[1:])
        return dict(xtol=gen_tol(rng, xt), ftol=gen_tol(rng, ft) if rng.random() < 0.7 else INF)
    if name == "SolutionImprovement":
        b, t = view["best"], view["trial"]
        rows = t if (t and isinstance(t[0], list)) else [t]
        tie = max(math.fsum(abs(_fsub(x, y)) for x, y in zip(b, r)) for r in rows)
        return dict(tolerance=gen_tol(rng, tie))
    if name == "NormalizedCostTarget":
        g = gen_window(rng, n)
        if rng.random() < 0.5:
            return dict(fval=None, tolerance=gen_tol(rng), generations=g)
        fval = float(rng.choice([last, last - 0.5, 1.0, 2.0, -1.0, 0.0, 0.5, _coarse(rng), -2.0]))
        if math.isinf(fval):
            fval = 1.0
        tie = abs(_fsub(last, fval)) / abs(fval) if fval != 0 else None
        return dict(fval=fval, tolerance=gen_tol(rng, tie), generations=g)
    if name == "VTRChangeOverGeneration":
        g = gen_window(rng, n); a = _idx(h, g) if h else None
        target = float(rng.choice([0.0, last, _coarse(rng), last + 1.0]))
        return dict(ftol=gen_tol(rng, abs(_fsub(last, target))) if rng.random() < 0.6 else -1.0,
                    gtol=gen_tol(rng, _fsub(a, last) if a is not None else None), generations=g, target=target)
    if name == "PopulationSpread":
        pop = view["pop"]; tie = None
        if pop:
            rs = [abs(_fsub(x, x0)) / abs(x0) for r in pop for x, x0 in zip(r, pop[0]) if x0 not in (0.0, INF, -INF)]
            rs = [r for r in rs if r == r]
            tie = max(rs) if rs else None
        return dict(tolerance=gen_tol(rng, tie))
    if name == "GradientNormTolerance":
        norm = rng.choice([INF, INF, 1, 0])
        g = view["gradient"][-1] if view["gradient"] else approx_grad(view)
        if norm == INF:
            tie = max(abs(x) for x in g)
        elif norm == 1:
            tie = math.fsum(abs(x) for x in g)
        else:
            tie = float(sum(1 for x in g if x != 0))
        return dict(tolerance=gen_tol(rng, tie), norm=norm)
    if name == "EvaluationLimits":
        gl = rng.choice([None, None, view["gens"], view["gens"] + 1, max(0, view["gens"] - 1), 0, 1, 1000])
        el = rng.choice([None, None, view["fcalls"], view["fcalls"] + 1, max(0, view["fcalls"] - 1), 0, 1, 10 ** 6])
        return dict(generations=gl, evaluations=el)
    if name == "TimeLimits":
        dt = view["tnow"] - view["tstart"]
        s = rng.choice([dt, dt, math.nextafter(dt, INF), math.nextafter(dt, -INF) if dt > 0 else 0.0, 0.0, 1.0, 86400.0, -dt, -1.0, INF])
        return dict(seconds=float(s), system=rng.choice([None, True, False]))
    if name == "SolverInterrupt":
        return {}
    raise ValueError(name)

NAN_KEYS = ("tolerance", "xtol", "ftol", "gtol", "target", "fval", "seconds")

def numpyfy(rng, cond, p_np=0.3, p_nan=0.06):
    """settings given as numpy scalars (numpy.float64 / numpy.int64 / elements of numpy arrays) and nan settings:
    their repr in the doc string is np.float64(..)/np.int64(..)/nan, which mystic.termination.state must eval back.
    The VALUES are unchanged (the model sees the same numbers); cond["np"] = {key: how} records the wrapping."""
    kw = cond["kw"]
    if rng.random() < p_nan:
        ks = [k for k in NAN_KEYS if isinstance(kw.get(k), float)]
        if ks:
            kw[rng.choice(ks)] = math.nan
    if rng.random() < p_np:
        ks = [k for k, v in kw.items() if v is not None and not isinstance(v, bool) and isinstance(v, (int, float))]
        how = {}
        for k in ks:
            if rng.random() < 0.7:
                how[k] = rng.choice(["scalar", "scalar", "elem"])
        if how:
            cond["np"] = how
    return cond

def make_kwargs(cond):
    """the keyword arguments actually passed to the factory"""
    import numpy
    kw = dict(cond["kw"])
    for k, how in (cond.get("np") or {}).items():
        v = kw.get(k)
        if v is None or isinstance(v, bool):
            continue
        if isinstance(v, int):
            kw[k] = numpy.int64(v) if how == "scalar" else numpy.array([v, 0], dtype=numpy.int64)[0]
        else:
            kw[k] = numpy.float64(v) if how == "scalar" else numpy.array([v, 0.0], dtype=float)[0]
    return kw

def approx_grad(view):
    """mystic._scipy060optimize.approx_fprime on the linear cost the stub carries (same operations)"""
    import numpy
    eps = math.sqrt(numpy.finfo(float).eps)
    lin = numpy.array(view["lin"], dtype=float)
    f = lambda x: float(numpy.add.reduce(lin * x)) if len(lin) < 8 else math.fsum((lin * x).tolist())
    xk = numpy.array(view["best"], dtype=float)
    with numpy.errstate(all="ignore"):
        f0 = f(xk); grad = []
        ei = numpy.zeros((len(xk),), float)
        for k in range(len(xk)):
            ei[k] = eps
            grad.append(float((f(xk + ei) - f0) / eps))
            ei[k] = 0.0
    return grad

def gen_tree(rng, ids, depth, p):
    """constructor expression: ["L", id] | ["N", kind, [args]];  kind in When/And/Or"""
    if depth == 0 or rng.random() < 0.3:
        return ["L", rng.choice(ids)]
    kind = rng.choice(["And", "And", "Or", "Or", "When"])
    if kind == "When":
        r = rng.random()
        if r < 0.5:
            return ["N", "When", [["L", rng.choice(ids)]]]
        sub = gen_tree(rng, ids, depth - 1, p)
        if sub[0] == "N" and sub[1] == "Or" and len(sub[2]) != 1 and rng.random() > p["flat"]:
            sub[1] = "And"      # When(Or(..)) is the flattening defect: keep it to the dedicated share
        return ["N", "When", [sub]]
    r = rng.random()
    nargs = 0 if r < p["empty"] else 1 if r < p["empty"] + 0.12 else rng.choice([2, 2, 2, 3, 3, 4])
    args = [gen_tree(rng, ids, depth - 1, p) for _ in range(nargs)]
    if nargs == 1 and args[0][0] == "N" and rng.random() > p["flat"]:
        args = [["L", rng.choice(ids)]]
    return ["N", kind, args]

def relabel_unique(tree, conds, counter):
    """give every leaf occurrence its own object (no sharing)"""
    if tree[0] == "L":
        k = counter[0]; counter[0] += 1
        conds.append(tree[1])
        return ["L", k]
    return ["N", tree[1], [relabel_unique(a, conds, counter) for a in tree[2]]]

def all_trees(nodes, leaves):
    """every constructor expression with exactly `nodes` nodes over the leaf ids (When has one argument)"""
    if nodes == 1:
        for l in leaves:
            yield ["L", l]
        for k in ("And", "Or"):
            yield ["N", k, []]
        return
    for k in ("And", "Or", "When"):
        for parts in _compositions(nodes - 1):
            if k == "When" and len(parts) != 1:
                continue
            for combo in itertools.product(*[list(all_trees(m, leaves)) for m in parts]):
                yield ["N", k, [json.loads(json.dumps(c)) for c in combo]]

def _compositions(n):
    if n == 0:
        yield []
        return
    for first in range(1, n + 1):
        for rest in _compositions(n - first):
            yield [first] + rest

BASE_VIEW = dict(hist=[1.0, 1.0], pop=[[1.0, 2.0], [1.5, 2.0]], popE=[1.0, 1.0], best=[1.0, 2.0], trial=[1.0, 2.0], gens=3,
                 fcalls=10, exit=False, gradient=None, lin=[1.0, 1.0], tstart=0.0, tnow=1.0)

def witnesses():
    """the minimal inputs of the known findings (Properties_C10.v *_refuted theorems), replayed on /repo on every run"""
    V = lambda **kw: dict(BASE_VIEW, **kw)
    L = lambda f, **kw: dict(f=f, kw=kw)
    a = L("VTR", tolerance=0.5, target=1.0)      # satisfied on hist [.., 1.0]
    b = L("VTR", tolerance=0.25, target=5.0)     # not satisfied
    one = lambda view, c: dict(kind="witness", view=view, conds=[c], tree=["L", 0])
    yield one(V(), L("ChangeOverGeneration", tolerance=-1.0, generations=1))
    yield one(V(), L("NormalizedChangeOverGeneration", tolerance=-1.0, generations=1))
    yield one(V(), L("VTRChangeOverGeneration", ftol=-1.0, gtol=-1.0, generations=1, target=5.0))
    yield one(V(hist=[1e-20, 0.0]), L("NormalizedChangeOverGeneration", tolerance=1.0, generations=0))
    yield one(V(hist=[1.5]), L("NormalizedCostTarget", fval=1.0, tolerance=-1.0, generations=1))
    yield one(V(), L("PopulationSpread", tolerance=-1.0))
    yield one(V(), L("TimeLimits", seconds=-5.0, system=None))
    yield one(V(pop=[[1.0, 2.0]], popE=[1.0]), L("CandidateRelativeTolerance", xtol=1e-4, ftol=1e-4))
    two = lambda tree: dict(kind="witness", view=V(), conds=[a, b], tree=tree)
    la, lb = ["L", 0], ["L", 1]
    yield two(["N", "When", [["N", "Or", [la, lb]]]])
    yield two(["N", "And", [["N", "Or", [la, lb]]]])
    yield two(["N", "Or", [["N", "And", [la, lb]]]])
    yield two(["N", "Or", [["N", "Or", [la, lb]], ["N", "And", [la, lb]]]])
    yield two(["N", "And", [["N", "Or", []], ["N", "And", []]]])
    yield two(["N", "When", [["N", "And", [la, la]]]])
    # settings given as numpy scalars / nan: state() must eval their repr (np.float64(..), np.int64(..), nan) back
    yield one(V(), dict(f="VTR", kw=dict(tolerance=0.5, target=1.0), np=dict(tolerance="scalar", target="elem")))
    yield one(V(), dict(f="ChangeOverGeneration", kw=dict(tolerance=1e-6, generations=1), np=dict(generations="scalar")))
    yield one(V(), dict(f="EvaluationLimits", kw=dict(generations=3, evaluations=None), np=dict(generations="elem")))
    yield one(V(), L("VTR", tolerance=math.nan, target=1.0))
    yield dict(kind="witness", view=V(), tree=["N", "Or", [["N", "And", [la, lb]], ["L", 2]]],
               conds=[dict(a, np=dict(tolerance="scalar")), b, L("NormalizedCostTarget", fval=math.nan, tolerance=1e-6, generations=1)])

def generate(rng, n, tier):
    for w in witnesses():
        yield w
    nleaf = int(n * 0.55)
    ntree = n - nleaf
    for i in range(nleaf):
        name = FACTORIES[i % len(FACTORIES)] if rng.random() < 0.5 else rng.choice(HIST_CONDS)
        view = gen_view(rng, focus=name)
        yield dict(kind="leaf", view=view, conds=[numpyfy(rng, dict(f=name, kw=gen_cond(rng, name, view)))], tree=["L", 0])
    p = dict(flat=0.08, empty=0.04)
    for i in range(ntree):
        view = gen_view(rng)
        nl = rng.randint(1, 6)
        pool = []
        for _ in range(nl):
            name = rng.choice(FACTORIES + HIST_CONDS + ["VTR", "EvaluationLimits", "SolverInterrupt"])
            pool.append(numpyfy(rng, dict(f=name, kw=gen_cond(rng, name, view)), p_np=0.2, p_nan=0.04))
        t = gen_tree(rng, list(range(nl)), rng.choice([1, 2, 2, 3, 3, 4]), p)
        if t[0] == "L":
            t = ["N", rng.choice(["And", "Or", "When"]), [t]]
        if rng.random() < 0.12:           # shared condition objects: ids are kept
            conds, tree = pool, t
        else:
            conds = []; ctr = [0]
            tree = relabel_unique(t, conds, ctr)
            conds = [pool[k] for k in conds]
        yield dict(kind="tree", view=view, conds=conds, tree=tree)
    if tier == "thorough":
        # exhaustive truth-table sweep: all trees with <= 7 nodes over 3 (shared) leaves x 8 assignments would be
        # ~10^6 runs; the sweep takes every tree with <= 5 nodes exhaustively and a seeded sample of 6..7-node trees
        view = dict(hist=[1.0], pop=[[1.0]], popE=[1.0], best=[1.0], trial=[1.0], gens=0, fcalls=0, exit=False,
                    gradient=None, lin=[1.0], tstart=0.0, tnow=0.0)
        small = [t for m in range(1, 6) for t in all_trees(m, [0, 1, 2])]
        big = [t for m in (6, 7) for t in itertools.islice(all_trees(m, [0, 1, 2]), 0, 200000, 997)]
        for t in small + big:
            for bits in range(8):
                # leaf k is satisfied iff bit k; distinct doc strings per leaf so that info names identify leaves
                conds = [dict(f="VTR", kw=dict(tolerance=0.5 + k, target=1.0 if (bits >> k) & 1 else 5.0 + k)) for k in range(3)]
                yield dict(kind="sweep", view=view, conds=conds, tree=t)

# ====================================================================== driver

class Stub(object):
    pass

def make_stub(view):
    import numpy
    s = Stub()
    s.energy_history = list(view["hist"])
    s.population = [list(r) for r in view["pop"]]
    s.popEnergy = list(view["popE"])
    s.bestSolution = numpy.array(view["best"], dtype=float)
    t = view["trial"]
    s.trialSolution = [list(r) for r in t] if (t and isinstance(t[0], list)) else list(t)
    s.generations = view["gens"]
    s._fcalls = [view["fcalls"]]
    s._EARLYEXIT = bool(view["exit"])
    if view["gradient"] is not None:
        s.gradient = [numpy.array(g, dtype=float) for g in view["gradient"]]
    lin = numpy.array(view["lin"], dtype=float)
    cost = (lambda x: float(numpy.add.reduce(lin * x))) if len(lin) < 8 else (lambda x: math.fsum((lin * x).tolist()))
    s._cost = (None, cost, None)
    return s

def _canon_kw(kw):
    out = {}
    for k, v in kw.items():
        if v is None or isinstance(v, bool):
            out[k] = v
        elif isinstance(v, int):
            out[k] = int(v)
        else:
            out[k] = "nan" if float(v) != float(v) else float(v)
    return out

def construct(T, expr, leaves):
    if expr[0] == "L":
        return leaves[expr[1]]
    cls = getattr(T, expr[1])
    return cls(*[construct(T, a, leaves) for a in expr[2]])

def skeleton(obj, ident):
    """object structure: ["L", id] | ["N", kind, members]"""
    if isinstance(obj, tuple):
        return ["N", type(obj).__name__, [skeleton(m, ident) for m in obj]]
    return ["L", ident[id(obj)]]

def rebuild(T, c, memo):
    """mystic.termination.type / state, member by member; each condition object is rebuilt once"""
    if isinstance(c, tuple):
        return T.type(c)(*[rebuild(T, m, memo) for m in c])
    if id(c) not in memo:
        memo[id(c)] = T.type(c)(**T.state(c)[c.__doc__])
    return memo[id(c)]

def _names(s):
    return sorted(set(s.split("; "))) if s else []

def observe(cond, stub):
    """bool / info / 'self' of one condition object"""
    o = {}
    try:
        r = cond(stub)
        o["bool"] = bool(r)
        o["booltype"] = "bool" if isinstance(r, bool) or type(r).__name__ in ("bool_", "bool") else type(r).__name__
    except Exception as e:
        o["bool"] = "err:" + type(e).__name__
    try:
        r = cond(stub, True)
        o["info"] = _names(r) if isinstance(r, str) else "nonstr:" + type(r).__name__
    except Exception as e:
        o["info"] = "err:" + type(e).__name__
    try:
        r = cond(stub, "self")
        o["self"] = (len(r) if isinstance(r, tuple) else (1 if r else 0))
    except Exception as e:
        o["self"] = "err:" + type(e).__name__
    return o

def run_impl(case):
    import time as _time, numpy
    import mystic.termination as T
    view = case["view"]
    saved = (_time.time, _time.perf_counter, _time.process_time)
    clock = [view["tstart"]]
    fake = lambda: clock[0]
    out = {}
    buf = io.StringIO()
    try:
        _time.time = _time.perf_counter = _time.process_time = fake
        with contextlib.redirect_stdout(buf), warnings.catch_warnings(), numpy.errstate(all="ignore"):
            warnings.simplefilter("ignore")
            stub = make_stub(view)
            leaves = [getattr(T, c["f"])(**make_kwargs(c)) for c in case["conds"]]
            ident = {id(l): k for k, l in enumerate(leaves)}
            out["docs"] = [l.__doc__ for l in leaves]
            try:
                top = construct(T, case["tree"], leaves)
                out["skeleton"] = skeleton(top, ident)
            except Exception as e:
                top = None
                out["skeleton"] = "err:" + type(e).__name__
            # state / type introspection and rebuilding happen at "construction time" of the clock
            st = []
            for l, c in zip(leaves, case["conds"]):
                try:
                    s = T.state(l)
                    ok = list(s.keys()) == [l.__doc__] and _canon_kw(s[l.__doc__]) == _canon_kw(c["kw"]) and T.type(l) is getattr(T, c["f"])
                    st.append(bool(ok))
                except Exception as e:
                    st.append("err:" + type(e).__name__)
            out["state_ok"] = st
            reb = None
            if top is not None:
                try:
                    memo = {}
                    reb = rebuild(T, top, memo)
                    rident = {id(v): ident[k] for k, v in memo.items()}
                    out["rebuilt_skeleton"] = skeleton(reb, rident)
                    out["state_keys_ok"] = sorted(T.state(top).keys()) == sorted(set(
                        out["docs"][k] for k in _leaf_ids(out["skeleton"])))
                except Exception as e:
                    out["rebuilt_skeleton"] = "err:" + type(e).__name__
            clock[0] = view["tnow"]
            out["leaf"] = [observe(l, stub) for l in leaves]
            if top is not None:
                out["top"] = observe(top, stub)
            if reb is not None:
                out["rebuilt"] = observe(reb, stub)
    finally:
        _time.time, _time.perf_counter, _time.process_time = saved
    return out

def _leaf_ids(sk):
    if sk[0] == "L":
        return [sk[1]]
    return [i for m in sk[2] for i in _leaf_ids(m)]

# ====================================================================== oracle: the documented meaning

def leaf_outcome(o, doc):
    """sat / unsat / warn / err / inconsistent from the three observation modes of a primitive"""
    b, i = o["bool"], o["info"]
    if isinstance(b, str) or isinstance(i, str):
        return "err" if (isinstance(b, str) and isinstance(i, str) and b.startswith("err") and i.startswith("err")) else "inconsistent"
    if b and i == [doc]:
        return "sat"
    if b and i == [WARN]:
        return "warn"
    if (not b) and i == []:
        return "unsat"
    return "inconsistent"

def _x(v):
    """float -> exact Fraction, or the float itself for +-inf"""
    return v if math.isinf(v) else Fr(v)

def _sub(a, b):
    """extended-real a-b; equal infinities differ by 0 ('no change'); None = indeterminate"""
    if isinstance(a, float) or isinstance(b, float):
        fa, fb = float(a), float(b)
        if fa == fb:
            return Fr(0)
        r = fa - fb
        return None if r != r else r
    return a - b

def _abs(a):
    return abs(a)

def _le(lhs, rhs, scale=None):
    """exact lhs <= rhs; None (no claim) when indeterminate or within float rounding of a tie that is not exact"""
    if lhs is None or rhs is None:
        return None
    if isinstance(lhs, float) or isinstance(rhs, float):
        return float(lhs) <= float(rhs)
    if lhs == rhs:
        return True
    sc = scale if scale is not None else max(abs(lhs), abs(rhs))
    if abs(lhs - rhs) <= Fr(1, 10 ** 13) * sc:
        return None
    return lhs <= rhs

def _window(h, g):
    """(a, b) = (cost[-g], cost[-1]) for a window that fits (len > g >= 0); 'short' / 'neg' otherwise"""
    gens = 0 if g is None else int(g)
    n = len(h)
    if gens < 0:
        return "neg"
    if n <= gens:
        return "short"
    return h[n - gens] if gens > 0 else h[0], h[-1]

def documented(c, view):
    """(expected, note): expected in {True, False, None=no claim}; note names the clause of the documentation used"""
    f, kw = c["f"], c["kw"]
    h = view["hist"]
    if any(isinstance(v, float) and v != v for v in kw.values()):
        return None, "nan setting"
    if f in HIST_CONDS and not h:
        return False, "empty history"
    if f == "VTR":
        return _le(_abs_sub(h[-1], kw["target"], strict_nan=True), _x(kw["tolerance"])), "abs(cost[-1]-target) <= tolerance"
    if f == "ChangeOverGeneration":
        w = _window(h, kw["generations"])
        if w == "neg": return None, "negative window"
        if w == "short": return False, "window longer than history"
        return _le(_sub(_x(w[0]), _x(w[1])), _x(kw["tolerance"])), "cost[-g]-cost[-1] <= tolerance"
    if f == "NormalizedChangeOverGeneration":
        w = _window(h, kw["generations"])
        if w == "neg": return None, "negative window"
        if w == "short": return False, "window longer than history"
        a, b = w; tol = kw["tolerance"]
        if a == b:
            return _le(Fr(0), _x(tol)), "normalized change 0 <= tolerance"
        if math.isinf(a) or math.isinf(b) or math.isinf(tol):
            return None, "indeterminate"
        lhs = 2 * (Fr(a) - Fr(b)); rhs = Fr(tol) * (abs(Fr(a)) + abs(Fr(b)))
        return _le(lhs, rhs, scale=abs(Fr(a)) + abs(Fr(b)) + abs(rhs)), "2(cost[-g]-cost[-1]) <= tolerance(|cost[-g]|+|cost[-1]|)"
    if f == "NormalizedCostTarget":
        fval, tol = kw["fval"], kw["tolerance"]
        gens = 0 if kw["generations"] is None else int(kw["generations"])
        if fval is None:
            if gens == 0:
                return True, "no improvement over 0 iterations"
            w = _window(h, gens)
            if w == "neg": return None, "negative window"
            if w == "short": return False, "window longer than history"
            return (not (w[1] < w[0])), "no improvement: not cost[-1] < cost[-g]"
        if math.isinf(tol):
            return None, "infinite tolerance"
        if fval == 0:
            return _le(_abs_sub(h[-1], fval), Fr(0)), "fval = 0"
        d = _abs_sub(h[-1], fval)
        if d is None:
            return None, "indeterminate"
        if isinstance(d, float):
            return False, "infinite distance"
        if fval < 0:
            # the documented quotient by a negative fval is read as the normalized absolute difference
            return _le(d, Fr(tol) * abs(Fr(fval)), scale=d + abs(Fr(tol) * Fr(fval))), "abs(cost[-1]-fval) <= tolerance*abs(fval)"
        return _le(d, Fr(tol) * Fr(fval), scale=d + abs(Fr(tol) * Fr(fval))), "abs(cost[-1]-fval)/fval <= tolerance"
    if f == "VTRChangeOverGeneration":
        w = _window(h, kw["generations"])
        if w == "neg": return None, "negative window"
        v = _le(_abs_sub(h[-1], kw["target"], strict_nan=True), _x(kw["ftol"]))
        cg = False if w == "short" else _le(_sub(_x(w[0]), _x(w[1])), _x(kw["gtol"]))
        if cg is True or v is True: return True, "either clause"
        if cg is None or v is None: return None, "indeterminate"
        return False, "neither clause"
    if f == "CandidateRelativeTolerance":
        pop, pe = view["pop"], view["popE"]
        if len(pe) < 2:
            return True, "no other candidate (nPop < 2): vacuous"
        if len(pop) < 2:
            return None, "population shorter than popEnergy"
        res = True
        for r in pop[1:]:
            for x, x0 in zip(r, pop[0]):
                res = _and3(res, _le(_abs_sub(x, x0, strict_nan=True), _x(kw["xtol"])))
        for fi in pe[1:]:
            res = _and3(res, _le(_abs_sub(pe[0], fi, strict_nan=True), _x(kw["ftol"])))
        return res, "abs(xi-x0) <= xtol & abs(fi-f0) <= ftol"
    if f == "SolutionImprovement":
        b, t = view["best"], view["trial"]
        rows = t if (t and isinstance(t[0], list)) else [t]
        res = True
        for r in rows:
            tot = Fr(0)
            for x, y in zip(b, r):
                d = _abs_sub(x, y, strict_nan=True)
                if d is None: return None, "indeterminate"
                tot = (tot + d) if not (isinstance(tot, float) or isinstance(d, float)) else INF
            sc = None if isinstance(tot, float) else tot + abs(Fr(kw["tolerance"])) if not math.isinf(kw["tolerance"]) else None
            res = _and3(res, _le(tot, _x(kw["tolerance"]), scale=sc))
        return res, "sum(abs(best-trial)) <= tolerance (every trial member)"
    if f == "PopulationSpread":
        pop = view["pop"]
        if not pop: return None, "empty population"
        tol = kw["tolerance"]; res = True
        for r in pop:
            for x, x0 in zip(r, pop[0]):
                if math.isinf(x) or math.isinf(x0) or math.isinf(tol):
                    res = _and3(res, None)
                    continue
                d = abs(Fr(x) - Fr(x0))
                if tol < 0:
                    res = _and3(res, _le(d, Fr(tol) * abs(Fr(x0))))      # documented: relative deviation <= tolerance
                else:
                    res = _and3(res, _le(d, Fr(tol) * abs(Fr(x0)), scale=d + abs(Fr(tol) * Fr(x0))))
        return res, "abs(params-params[0]) <= tolerance*abs(params[0])"
    if f == "GradientNormTolerance":
        g = view["gradient"][-1] if view["gradient"] else approx_grad(view)
        if any(x != x for x in g):
            return None, "NaN gradient"
        if kw["norm"] == INF:
            w = max(_x(abs(x)) for x in g) if not any(math.isinf(x) for x in g) else INF
        elif kw["norm"] == 1:
            w = sum(Fr(abs(x)) for x in g) if not any(math.isinf(x) for x in g) else INF
        else:
            w = Fr(sum(1 for x in g if x != 0))
        return _le(w, _x(kw["tolerance"])), "norm(gradient) <= tolerance"
    if f == "EvaluationLimits":
        a = kw["generations"] is not None and view["gens"] >= kw["generations"]
        b = kw["evaluations"] is not None and view["fcalls"] >= kw["evaluations"]
        return bool(a or b), "iterations >= generations or fcalls >= evaluations"
    if f == "TimeLimits":
        el = Fr(view["tnow"]) - Fr(view["tstart"])
        return _le(_x(kw["seconds"]), el, scale=abs(Fr(view["tnow"])) + abs(Fr(view["tstart"]))), "time >= seconds"
    if f == "SolverInterrupt":
        return bool(view["exit"]), "_EARLYEXIT"
    return None, "unknown"

def _and3(a, b):
    if a is False or b is False: return False
    if a is None or b is None: return None
    return True

def _abs_sub(a, b, strict_nan=False):
    """|a-b| over the extended reals; inf-inf: 0 for histories ('no change'), indeterminate for coordinates"""
    if math.isinf(a) and math.isinf(b) and a == b and strict_nan:
        return None
    d = _sub(_x(a), _x(b))
    return None if d is None else abs(d)

def known_leaf_pattern(c, view, got):
    """where the code is known to depart from its documentation: (site, pattern) or None"""
    f, kw = c["f"], c["kw"]
    h = view["hist"]
    if f in ("ChangeOverGeneration", "NormalizedChangeOverGeneration", "VTRChangeOverGeneration") and got:
        tol = kw.get("tolerance", kw.get("gtol"))
        w = _window(h, kw["generations"]) if h else "short"
        if isinstance(w, tuple) and w[0] == w[1] and tol < 0:
            return f, "plateau-negative-tolerance"
    if f == "NormalizedChangeOverGeneration" and got:
        w = _window(h, kw["generations"]) if h else "short"
        if isinstance(w, tuple) and not any(math.isinf(v) for v in (w[0], w[1], kw["tolerance"])):
            a, b, tol = Fr(w[0]), Fr(w[1]), Fr(kw["tolerance"])
            if 2 * (a - b) <= (tol * (abs(a) + abs(b)) + Fr(ETA)) * (1 + Fr(1, 10 ** 12)):
                return f, "eta-slack"
    if f == "NormalizedCostTarget" and got and kw["fval"] is not None and kw["tolerance"] < 0:
        return f, "abs-of-negative-tolerance"
    if f == "PopulationSpread" and got and kw["tolerance"] < 0:
        return f, "abs-of-negative-tolerance"
    if f == "TimeLimits" and (not got) and kw["seconds"] < 0:
        return f, "abs-of-negative-seconds"
    return None

# ---- compound conditions: intended meaning and the two known mechanisms that break it

def intended(expr, truth):
    if expr[0] == "L":
        return truth[expr[1]]
    vals = [intended(a, truth) for a in expr[2]]
    return any(vals) if expr[1] == "Or" else all(vals)

def py_construct(expr):
    """the object structure the constructors produce (argument unpacking of __new__)"""
    if expr[0] == "L":
        return expr
    args = [py_construct(a) for a in expr[2]]
    k = expr[1]
    if k == "When":
        a = args[0]
        if a[0] == "N" and len(a[2]) == 1:
            a = a[2][0]
        return ["N", "When", [a] if a[0] == "L" else a[2]]
    if len(args) == 1 and args[0][0] == "N":
        return ["N", k, args[0][2]]
    return ["N", k, args]

def _key(o):
    return ("L", o[1]) if o[0] == "L" else tuple(_key(m) for m in o[2])

def py_eval(o, truth, collide=True):
    if o[0] == "L":
        return truth[o[1]]
    d = {}
    for n, m in enumerate(o[2]):
        d[_key(m) if collide else n] = py_eval(m, truth, collide)
    return any(d.values()) if o[1] == "Or" else all(d.values())

def has_collision(o):
    if o[0] == "L":
        return None
    ks = [_key(m) for m in o[2]]
    if len(set(ks)) != len(ks):
        return o[1]
    for m in o[2]:
        r = has_collision(m)
        if r:
            return r
    return None

def flatten_site(expr):
    """first constructor call whose single compound argument is unpacked into a different kind of compound"""
    if expr[0] == "L":
        return None
    for a in expr[2]:
        r = flatten_site(a)
        if r:
            return r
    if len(expr[2]) == 1 and expr[2][0][0] == "N":
        return expr[1]
    return None

def has_empty_all(o):
    if o[0] == "L":
        return False
    return (o[1] != "Or" and not o[2]) or any(has_empty_all(m) for m in o[2])

def when_multi(o):
    if o[0] == "L":
        return False
    return (o[1] == "When" and len(o[2]) != 1) or any(when_multi(m) for m in o[2])

def _fail(clause, site, pattern, detail):
    return dict(clause=clause, site=site, pattern=pattern, detail=detail)

def oracle(case, obs):
    out = []
    if "__exception__" in obs:
        return [_fail("no-crash", "harness.run_impl", obs["__exception__"], obs.get("__tb__"))]
    view, conds = case["view"], case["conds"]
    truth = []
    warn_docs = set()
    for k, (c, o) in enumerate(zip(conds, obs["leaf"])):
        oc = leaf_outcome(o, obs["docs"][k])
        truth.append(oc in ("sat", "warn"))
        if oc == "inconsistent":
            out.append(_fail("modes-agree", c["f"], "bool-info-self-disagree", o))
            continue
        if oc == "err":
            continue
        if oc == "warn":
            out.append(_fail("info_names_conditions", "CandidateRelativeTolerance", "npop-lt-2-warning-as-name", o))
        if o["self"] != (1 if truthy_oc(oc) else 0):
            out.append(_fail("modes-agree", c["f"], "self-mode-disagrees", o))
        exp, note = documented(c, view)
        if exp is not None and exp != truthy_oc(oc):
            kp = known_leaf_pattern(c, view, truthy_oc(oc))
            site, pat = kp if kp else (c["f"], "documented-inequality")
            out.append(_fail(c["f"] + "_iff", site, pat, dict(cond=c, expected=exp, got=oc, clause=note)))
        if obs["state_ok"][k] is not True:
            out.append(_fail("rebuild_same", "termination.state", "state-is-not-the-settings", dict(cond=c, got=obs["state_ok"][k])))
    if case["tree"][0] == "L" or isinstance(obs.get("skeleton"), str):
        if isinstance(obs.get("skeleton"), str):
            out.append(_fail("construct", "termination." + str(case["tree"][1]), obs["skeleton"], case["tree"]))
        return out
    expr = case["tree"]
    top = obs["top"]
    leaf_err = any(isinstance(obs["leaf"][k]["bool"], str) for k in set(_leaf_ids(obs["skeleton"])))
    obj = obs["skeleton"]
    if isinstance(top["bool"], str) or leaf_err:
        if not (isinstance(top["bool"], str) and leaf_err):
            out.append(_fail("exceptions-propagate", "When.__call__", "exception-mismatch", top))
        return out
    want = intended(expr, truth)
    if top["bool"] != want:
        fs = flatten_site(expr); site = pat = None
        mine = py_construct(expr)
        if fs and py_eval(mine, truth, collide=False) == top["bool"] and mine == obj:
            site, pat = fs + ".__new__", "single-compound-argument-flattened"
        elif has_collision(mine) and py_eval(mine, truth, collide=True) == top["bool"] and mine == obj:
            site, pat = ("Or" if has_collision(mine) == "Or" else "When") + ".__call__", "equal-members-collide-in-dict"
        else:
            site, pat = expr[1] + ".__call__", "wrong-result"
        out.append(_fail("eval_" + expr[1], site, pat, dict(expected=want, got=top["bool"], tree=expr, truth=truth)))
    if top.get("booltype") not in ("bool",):
        out.append(_fail("eval_returns_bool", expr[1] + ".__call__", "non-bool-result", top))
    # info: names only satisfied member conditions; empty iff not satisfied
    if isinstance(top["info"], str):
        out.append(_fail("info_sound", expr[1] + ".__call__", "info-raised", top))
    else:
        ids = set(_leaf_ids(obj))
        ok_names = set(obs["docs"][k] for k in ids if truth[k] and leaf_outcome(obs["leaf"][k], obs["docs"][k]) == "sat")
        ok_names |= set(WARN for k in ids if leaf_outcome(obs["leaf"][k], obs["docs"][k]) == "warn")
        bad = [n for n in top["info"] if n not in ok_names]
        if bad:
            out.append(_fail("info_sound", expr[1] + ".__call__", "names-unsatisfied-condition", dict(bad=bad, tree=expr)))
        if not has_empty_all(obj) and (len(top["info"]) == 0) != (not top["bool"]):
            out.append(_fail("info_sound", expr[1] + ".__call__", "empty-info-iff-unsatisfied", dict(top=top, tree=expr)))
    if isinstance(top["self"], str):
        out.append(_fail("self_mode", expr[1] + ".__call__", "self-raised", top))
    elif not has_empty_all(obj) and (top["self"] > 0) != top["bool"]:
        out.append(_fail("self_mode", expr[1] + ".__call__", "self-disagrees-with-bool", dict(top=top, tree=expr)))
    # rebuilt from type + state behaves identically
    rs = obs.get("rebuilt_skeleton")
    if isinstance(rs, str):
        if when_multi(obj) and rs == "err:TypeError":
            out.append(_fail("rebuild_same", "When.__new__", "multi-member-when-not-rebuildable", dict(tree=expr, object=obj)))
        else:
            out.append(_fail("rebuild_same", "termination.type", "rebuild-raised", dict(tree=expr, err=rs)))
    else:
        if obs.get("rebuilt") != top:
            out.append(_fail("rebuild_same", "termination.type", "rebuilt-behaves-differently", dict(top=top, rebuilt=obs.get("rebuilt"), tree=expr)))
        if obs.get("state_keys_ok") is not True:
            out.append(_fail("rebuild_same", "termination.state", "state-keys", dict(tree=expr)))
    return out

def truthy_oc(oc):
    return oc in ("sat", "warn")

# ====================================================================== evidence helpers

def classify(case, obs):
    tags = ["kind:" + case["kind"]]
    view = case["view"]
    nontriv = bool(view["hist"]) or bool(view["pop"])
    if "__exception__" in obs:
        return json.dumps(case, sort_keys=True), False, tags + ["driver-exception"]
    if any(c.get("np") for c in case["conds"]):
        tags.append("settings:numpy-scalars")
    if any(isinstance(v, float) and v != v for c in case["conds"] for v in c["kw"].values()):
        tags.append("settings:nan")
    for k, c in enumerate(case["conds"]):
        oc = leaf_outcome(obs["leaf"][k], obs["docs"][k])
        if case["tree"][0] == "L":
            tags.append("leaf:" + c["f"]); tags.append("outcome:" + oc)
            tags.append("hist-len:" + ("0" if not view["hist"] else "1" if len(view["hist"]) == 1 else "2-8" if len(view["hist"]) <= 8 else "9-40"))
            tie = tie_site(c, view)
            if tie:
                tags.append("tie:" + c["f"])
            g = c["kw"].get("generations", "n/a")
            if c["f"] in HIST_CONDS and c["f"] != "VTR":
                n = len(view["hist"])
                gi = 0 if g is None else int(g)
                tags.append("window:" + ("None" if g is None else "neg" if gi < 0 else "0" if gi == 0 else "len" if gi == n else
                                         "len-1" if gi == n - 1 else ">len" if gi > n else "inside"))
            tol = [v for kk, v in c["kw"].items() if "tol" in kk and isinstance(v, float)]
            for v in tol[:1]:
                tags.append("tol:" + ("nan" if v != v else "neg" if v < 0 else "0" if v == 0 else "inf" if math.isinf(v) else "tiny" if v < 1e-100 else "huge" if v > 1e100 else "mid"))
    if case["tree"][0] != "L":
        sk = obs.get("skeleton")
        if isinstance(sk, list):
            tags.append("depth:%d" % _depth(case["tree"]))
            tags.append("top:" + str(obs.get("top", {}).get("bool")))
            if flatten_site(case["tree"]): tags.append("tree:single-compound-argument")
            if has_collision(py_construct(case["tree"])): tags.append("tree:key-collision")
            if has_empty_all(sk): tags.append("tree:empty-and")
            if len(set(_leaf_ids(sk))) < len(_leaf_ids(sk)): tags.append("tree:shared-leaf")
        nontriv = nontriv and case["tree"][0] == "N"
    return json.dumps(case, sort_keys=True), nontriv, tags

def _depth(e):
    return 0 if e[0] == "L" else 1 + max([_depth(a) for a in e[2]] + [0])

def tie_site(c, view):
    """does this case sit exactly on the boundary of the condition's inequality (float evaluation)?"""
    f, kw, h = c["f"], c["kw"], view["hist"]
    try:
        if f == "VTR" and h:
            return abs(h[-1] - kw["target"]) == kw["tolerance"]
        if f == "ChangeOverGeneration" and h:
            w = _window(h, kw["generations"])
            return isinstance(w, tuple) and (w[0] - w[1]) == kw["tolerance"]
        if f == "NormalizedChangeOverGeneration" and h:
            w = _window(h, kw["generations"])
            return isinstance(w, tuple) and w[0] != w[1] and 2.0 * (w[0] - w[1]) == kw["tolerance"] * (abs(w[0]) + abs(w[1])) + ETA
        if f == "VTRChangeOverGeneration" and h:
            w = _window(h, kw["generations"])
            return (isinstance(w, tuple) and (w[0] - w[1]) == kw["gtol"]) or abs(h[-1] - kw["target"]) == kw["ftol"]
        if f == "NormalizedCostTarget" and h:
            if kw["fval"] is None:
                w = _window(h, kw["generations"])
                return isinstance(w, tuple) and w[0] == w[1]
            return abs(h[-1] - kw["fval"]) == abs(kw["tolerance"] * kw["fval"])
        if f == "EvaluationLimits":
            return view["gens"] == kw["generations"] or view["fcalls"] == kw["evaluations"]
        if f == "TimeLimits":
            return view["tnow"] - view["tstart"] == abs(kw["seconds"])
        if f == "CandidateRelativeTolerance" and len(view["pop"]) > 1 and len(view["popE"]) > 1:
            xt = max(abs(x - x0) for r in view["pop"][1:] for x, x0 in zip(r, view["pop"][0]))
            ft = max(abs(view["popE"][0] - e) for e in view["popE"][1:])
            return xt == kw["xtol"] or ft == kw["ftol"]
        if f == "SolutionImprovement":
            t = view["trial"]; rows = t if (t and isinstance(t[0], list)) else [t]
            return max(math.fsum(abs(x - y) for x, y in zip(view["best"], r)) for r in rows) == kw["tolerance"]
        if f == "PopulationSpread" and view["pop"]:
            return any(abs(x - x0) == abs(kw["tolerance"] * x0) and x != x0 for r in view["pop"] for x, x0 in zip(r, view["pop"][0]))
        if f == "GradientNormTolerance":
            g = view["gradient"][-1] if view["gradient"] else approx_grad(view)
            w = max(abs(x) for x in g) if kw["norm"] == INF else math.fsum(abs(x) for x in g) if kw["norm"] == 1 else sum(1 for x in g if x != 0)
            return w == kw["tolerance"]
    except Exception:
        return False
    return False

def shrink(case):
    v = case["view"]
    # shorter history (keep the end), smaller population, simpler tree
    h = v["hist"]
    if len(h) > 1:
        for k in (len(h) // 2, 1):
            yield dict(case, view=dict(v, hist=h[k:]))
            yield dict(case, view=dict(v, hist=h[:-k] + h[-1:]) if k < len(h) else v)
    if len(v["pop"]) > 2:
        yield dict(case, view=dict(v, pop=v["pop"][:2], popE=v["popE"][:2]))
    t = case["tree"]
    if t[0] == "N":
        for i, a in enumerate(t[2]):
            if len(t[2]) > 1:
                yield dict(case, tree=["N", t[1], t[2][:i] + t[2][i + 1:]])
            if a[0] == "N":
                yield dict(case, tree=a)
                for j, b in enumerate(a[2]):
                    yield dict(case, tree=["N", t[1], t[2][:i] + [b] + t[2][i + 1:]])
