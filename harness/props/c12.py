"""C12 - symbolic rewriting preserves the solution set (mystic.symbolic.simplify / solve / linear_symbolic / symbolic_bounds).

Two layers:
 1. coq/Pure/Symbolic*.v: the comparator algebra (flip, merge, isolate, sign cases for a variable divisor, product of cases,
    matrix/bounds text) proved for all inputs and all evaluation points.
 2. translation validation, every run, every generated system: the strings mystic returns are parsed (harness/props/c12_util.py)
    into the AST of coq/Pure/SymExpr.v and the statement  forall env, holds_sys env INPUT <-> holds_cases env OUTPUT  is proved
    inside the generated cases file by lra/nra (after verified clearing of variable divisors).  Each certificate is a bool
    Definition  ltac:(first [assert (STATEMENT) by tactic; exact true | exact false])  -- the proof term is part of the
    definition and is type-checked by the kernel; a goal that cannot be proved yields [false] (a model/implementation
    disagreement) without hiding the other goals of the file.
"""
import json, math, re, random, io, contextlib
from fractions import Fraction
from harness.props import c12_util as U

ID = "C12"
TITLE = "Symbolic rewriting preserves the solution set"
PROPS_FILE = "Props/Properties_C12.v"
LEVEL = "proof"
SIZES = {"quick": 420, "thorough": 4000}
PARALLEL = True
SHARD = 60
COQ_TIMEOUT = 900
RULE = ("cases: kind in {simplify (linear, 1-4 lines, 1-5 variables), simplify_div (rational, one variable divisor), solve "
        "(consistent linear equalities), linear_symbolic, symbolic_bounds, algebra (flip/_flip/comparator/merge called directly)}; "
        "coefficient classes int / dyadic / decimal (1e10, 1e-5, ...) / inexact (0.1, thirds); every comparator; x-indexed and named "
        "variables; boundary stream: opposing bound pairs, semantically opposite lines with different text, cancelling lines, zero "
        "coefficients, duplicates; thorough adds all single-line systems a*x0 + b*x1 cmp 1 with a, b in {+-1, +-2, +-1/2} x 6 comparators; "
        "non-trivial = mystic returned a result for a system with at least one variable; "
        "distinct = distinct case JSON")
TRUSTED = ["harness/props/c12_util.py: the parser from constraint text to the SymExpr AST, the exact (Fraction) interpreter and the "
           "Gallina printer (division by a constant sub-expression is printed as multiplication by the exact reciprocal)",
           "a decimal literal in a constraint string denotes the rational it spells; evaluation points are rationals (every float is one)",
           "per-program certificates are kernel-checked Coq proofs (Lqa lra/nra + the proved lemmas clear_pos/clear_neg/clear_zero), "
           "one per generated system; the set of systems is sampled"]
ASSUMPTIONS = ["IEEE rounding inside mystic/sympy is modelled, not verified: outputs carrying a 15-significant-digit (truncated) float "
               "literal are compared with relative tolerance 1e-9 (class 'inexact', counted separately, no certificate)",
               "sympy's solver is not modelled: its answers are validated per instance",
               "non-linear systems (products of variables, powers, functions, abs) are outside the class; results that do not parse "
               "into the AST are counted as 'unparsed' and not judged"]
META = dict(
    technique=("Coq proof of the comparator algebra (all inputs) + per-program translation validation: every generated system gets a "
               "kernel-checked certificate  forall env, input <-> (case1 \\/ ... \\/ casek)  valid for all evaluation points; plus "
               "model/implementation comparison of canonical forms by vm_compute and an independent exact interpreter at sample points"),
    level_text=("flip/merge/isolate/isolate_div/product/simplify_lin/text_of_matrix/text_of_bounds are theorems for all inputs and all "
                "points. Tied to /repo on every run: mystic's returned strings are parsed and (i) compared with the model's isolation "
                "of the variable mystic chose, (ii) certified equivalent to the input by a Coq proof per program. Three clauses are "
                "refuted (known findings): inclusive pre-merge of opposing bounds, dropped zero of a divisor introduced by the "
                "rewriting, cancelling '='/'!=' lines returned as ''."),
    level_note=("The per-program part is translation validation with kernel-checked certificates: the quantifier over programs is "
                "sampled, the quantifier over evaluation points is proved per program. Trusted: Coq kernel, text parser/printer. "
                "Float rounding: modelled, not verified."),
    design_ref="5/C12")

TOL = Fraction(1, 10**9)
NAMES = [["p", "q", "r", "s", "t"], ["alpha", "beta", "gamma", "delta", "mu"], ["u1", "v", "w2", "zz", "k"]]
CMP_TXT = ["<", "<=", "=", "!=", ">=", ">"]

# ------------------------------------------------------------------ generators


# literals whose decimal text contains <digit>0.0<digit> / 0.0<digit> (sympy '0.0x' workarounds in _symbolic.py rewrite such text)
ZDYADIC = [10.0625, 20.03125, 100.015625, 0.0625, 1.0625, 30.0625, 10.03125, 0.03125, 100.0625, 50.015625, 200.0078125, 0.015625]
ZDECIMAL = [10.05, 20.025, 100.01, 10.005, 0.05, 1.05, 30.07, 0.01, 200.02, 10.09, 0.005, 1000.03, 40.0625, 0.08, 70.04]


def _num(rng, cls):
    if cls == "zdyadic":
        if rng.random() < 0.2:
            return rng.choice(ZDYADIC) * rng.choice([1, -1])
        cls = "dyadic"
    if cls == "zdecimal":
        if rng.random() < 0.25:
            return rng.choice(ZDECIMAL) * rng.choice([1, -1])
        return rng.choice([1, -1, 2, -2, 4, 5, -10, 0.5, -0.25, 1.0, 8.0])
    if cls == "int":
        return rng.choice([-12, -7, -5, -3, -2, -1, 1, 1, 2, 2, 3, 4, 5, 9, 10, 24])
    if cls == "dyadic":   # +-2^k: every quotient of two of them is again exact
        return rng.choice([-8.0, -4.0, -2.0, -1.0, -0.5, -0.25, -0.125, 0.0625, 0.125, 0.25, 0.5, 1.0, 2.0, 4.0, 16.0])
    if cls == "decimal":
        return rng.choice([1e10, -1e10, 1e-5, -1e-5, 2.5e8, -4e-7, 1e15, 5e-9, -2e3, 1e-300, 1e300, 1250.0, 0.002])
    return rng.choice([0.1, -0.3, 0.7, 1.1, -2.3, 3.3, 1.5, -0.75, 3.0, 6.0, 0.9, -7.0])   # inexact


def _const(rng, cls):
    if cls == "zdyadic":
        return rng.choice(ZDYADIC) * rng.choice([1, 1, -1])
    if cls == "zdecimal":
        return rng.choice(ZDECIMAL) * rng.choice([1, 1, -1])
    if cls == "dyadic":
        return rng.choice([-3.0, -1.5, -0.75, 0.0, 0.375, 1.0, 2.5, 6.0, 10.25])
    if rng.random() < 0.1:
        return 0 if cls == "int" else 0.0
    return _num(rng, cls)


def _lit(x):
    return repr(x)


def _term(rng, c, v):
    style = rng.random()
    if c == 1 and style < 0.5:
        return v
    if c == -1 and style < 0.5:
        return "-" + v
    if style < 0.85:
        return "%s*%s" % (_lit(c), v)
    return "%s*%s" % (v, _lit(c))


def _join(terms):
    s = ""
    for t in terms:
        if not s:
            s = t
        elif t.startswith("-"):
            s += " - " + t[1:]
        else:
            s += " + " + t
    return s


def _linear_line(rng, cls, names, cmp=None):
    k = rng.randint(1, min(3, len(names)))
    vs = rng.sample(names, k)
    lhs = [_term(rng, _num(rng, cls), v) for v in vs]
    if rng.random() < 0.3:
        lhs.append(_lit(_const(rng, cls)))
        rng.shuffle(lhs)
    rhs = []
    if rng.random() < 0.35:
        w = rng.choice(names)
        rhs.append(_term(rng, _num(rng, cls), w))
    rhs.append(_lit(_const(rng, cls)))
    if rng.random() < 0.3:
        rng.shuffle(rhs)
    L, R = _join(lhs), _join(rhs)
    if rng.random() < 0.12 and cls in ("int", "dyadic"):
        f = _num(rng, cls)
        L = "%s*(%s)" % (_lit(f), L)
    if rng.random() < 0.1:
        L, R = R, L
    c = cmp or rng.choice(CMP_TXT + ["=="] if rng.random() < 0.1 else CMP_TXT)
    return "%s %s %s" % (L, c, R)


def _names(rng, nv):
    if rng.random() < 0.7:
        return "x", ["x%d" % i for i in range(nv)]
    fam = rng.choice(NAMES)
    return fam[:nv], fam[:nv]


_OPP = {"<": [">", ">="], "<=": [">=", ">"], ">": ["<", "<="], ">=": ["<=", "<"]}


def _boundary_lines(rng, cls, names):
    """the boundary stream for simplify: returns a list of lines"""
    which = rng.choice(["opposing", "opposing", "semantic-opposite", "semantic-opposite", "cancel", "cancel", "zero-coeff",
                        "duplicate", "same-var"] + (["diagonal", "diagonal"] if len(names) >= 2 else []))
    base = _linear_line(rng, cls, names, cmp=rng.choice(["<", "<=", ">=", ">"]))
    l, c, r = U.split_cmp(base)
    l, r = l.strip(), r.strip()
    if which == "opposing":      # textually identical sides, opposite comparator (symbolic.merge's tables)
        lines = [base, "%s %s %s" % (l, rng.choice(_OPP[c]), r)]
    elif which == "semantic-opposite":   # same boundary, different text: only the post-isolation (exclusive) merge sees it
        c2 = rng.choice(_OPP[c])
        flipped = {"<": ">", "<=": ">=", ">": "<", ">=": "<="}[c2]
        lines = [base, rng.choice(["%s %s %s" % (r, flipped, l), "-(%s) %s -(%s)" % (l, flipped, r)])]
    elif which == "cancel":      # every variable cancels
        v = rng.choice(names)
        k = _lit(_num(rng, cls))
        d = _lit(rng.choice([0, 0, 1, -2] if cls == "int" else [0.0, 0.0, 0.5, -2.0]))
        lines = ["%s*%s %s %s*%s + %s" % (k, v, rng.choice(["=", "!=", "=", "!=", "<", ">="]), k, v, d)]
    elif which == "diagonal":    # a homogeneous line whose coefficients cancel: its boundary contains the diagonal x_i = t (every point with equal
        vs = rng.sample(names, min(len(names), rng.choice([2, 2, 3])))   # coordinates lies on it), the isolated variable has a negative coefficient
        a = rng.choice([1, 2, 3]) if cls == "int" else rng.choice([1.0, 0.5, 2.0, 3.0])
        cs = [-a * (len(vs) - 1)] + [a] * (len(vs) - 1)
        terms = " + ".join("%s*%s" % (_lit(k), v) for k, v in zip(cs, vs))
        lines = ["%s %s %s" % (terms, rng.choice(["<", "<=", ">=", ">"]), _lit(0 if cls == "int" else 0.0))]
    elif which == "zero-coeff":
        v = rng.choice(names)
        lines = ["%s + 0*%s" % (l, v) + " %s %s" % (c, r)]
    elif which == "duplicate":
        lines = [base, base]
    else:                        # several bounds on one variable
        v = rng.choice(names)
        lines = ["%s %s %s" % (v, rng.choice(CMP_TXT), _lit(_const(rng, cls))) for _ in range(rng.randint(2, 3))]
    if rng.random() < 0.6 and len(lines) < 4:
        lines.insert(rng.randrange(len(lines) + 1), _linear_line(rng, cls, names))
    return lines, which


def _gen_simplify(rng):
    cls = rng.choice(["int", "int", "int", "dyadic", "dyadic", "decimal", "inexact", "zdyadic", "zdyadic", "zdecimal"])
    nv = rng.randint(1, 5)
    variables, names = _names(rng, nv)
    if rng.random() < (0.3 if not cls.startswith("z") else 0.1):
        lines, which = _boundary_lines(rng, cls if cls != "decimal" else "int", names)
        tag = "boundary:" + which
    else:
        lines = [_linear_line(rng, cls, names) for _ in range(rng.choice([1, 1, 2, 2, 3, 4]))]
        tag = "regular"
    return dict(kind="simplify", cls=cls, variables=variables, nv=nv, text="\n".join(lines), stream=tag,
                rseed=rng.randrange(10**6))


def _gen_div(rng):
    cls = rng.choice(["int", "int", "dyadic", "zdyadic"])
    nv = rng.randint(2, 4)
    variables, names = _names(rng, nv)
    d = rng.choice(names)
    others = [n for n in names if n != d]
    a = rng.choice(others)
    c = rng.choice(CMP_TXT)
    k, k2 = _lit(_num(rng, cls)), _lit(_const(rng, cls))
    form = rng.choice(["v/d", "v/d", "(lin)/d", "k/d", "k/d", "v/d+w", "k/d vs v", "v vs k/d", "kv/d"])
    if form == "v/d":
        line = "%s/%s %s %s" % (a, d, c, k2)
    elif form == "(lin)/d":
        # the other side must not repeat the numerator variable (two sign-relevant factors: outside the class)
        line = "(%s + %s)/%s %s %s" % (a, k2, d, c, rng.choice([n for n in others if n != a] + [k]))
    elif form == "k/d":
        if float(k2) == 0:      # 'k/d = 0' has no solution for d: sympy returns nothing and the line is dropped (finding C's cousin)
            k2 = _lit(_num(rng, cls))
        line = "%s/%s %s %s" % (k, d, c, k2)
    elif form == "v/d+w":
        # w must differ from the numerator variable: 'a/d + a < 0' = a*(1/d + 1) < 0 depends on the signs of TWO factors
        # (outside the class; mystic divides by a without a sign case there)
        ws = [n for n in others if n != a]
        line = "%s/%s + %s %s %s" % (a, d, rng.choice(ws) if ws else k, c, k2)
    elif form == "k/d vs v":
        line = "%s/%s %s %s" % (k, d, c, a)
    elif form == "v vs k/d":
        line = "%s %s %s/%s" % (a, c, k, d)
    else:
        line = "%s*%s/%s %s %s" % (k, a, d, c, k2)
    # people write divisions with blanks around the slash as well: the rewriting must not depend on them
    sp = rng.choice(["/", "/", " / ", " / ", "/ ", " /"])
    line = line.replace("/", sp)
    lines = [line]
    if rng.random() < 0.35:
        lines.insert(rng.randrange(2), _linear_line(rng, cls, names))
    return dict(kind="simplify_div", cls=cls, variables=variables, nv=nv, text="\n".join(lines), stream="div:" + form,
                rseed=rng.randrange(10**6))


def _gen_solve_z(rng):
    """consistent by construction: equation i owns pivot variable i, the other variables are free ones"""
    cls = rng.choice(["zdyadic", "zdyadic", "zdecimal"])
    nv = rng.randint(1, 5)
    m = rng.randint(1, min(3, nv))
    variables, names = _names(rng, nv)
    free = names[m:]
    lines = []
    for i in range(m):
        terms = [_term(rng, _num(rng, cls), names[i])]
        for w in rng.sample(free, rng.randint(0, min(2, len(free)))):
            terms.append(_term(rng, _num(rng, cls), w))
        rng.shuffle(terms)
        rhs = [_lit(_const(rng, cls))]
        if free and rng.random() < 0.3:
            rhs.insert(rng.randrange(2), _term(rng, _num(rng, cls), rng.choice(free)))
        if rng.random() < 0.25:
            terms.append(_lit(_const(rng, cls)))
        L, R = _join(terms), _join(rhs)
        if rng.random() < 0.2:
            L, R = R, L
        lines.append("%s = %s" % (L, R))
    return dict(kind="solve", cls=cls, variables=variables, nv=nv, text="\n".join(lines), target=None, stream="zero-pattern")


def _gen_solve(rng):
    if rng.random() < 0.4:
        return _gen_solve_z(rng)
    cls = rng.choice(["int", "int", "dyadic"])
    nv = rng.randint(1, 5)
    m = rng.randint(1, min(3, nv))
    variables, names = _names(rng, nv)
    sol = [rng.randint(-4, 4) for _ in range(nv)]
    lines = []
    for _ in range(m):
        k = rng.randint(1, min(3, nv))
        idx = rng.sample(range(nv), k)
        cs = [_num(rng, cls) for _ in idx]
        move = rng.random() < 0.3 and k > 1
        lhs_idx = idx[:-1] if move else idx
        rhs_t = []
        tot = sum(Fraction(c) * sol[i] for c, i in zip(cs, idx))
        if move:
            rhs_t.append(_term(rng, -cs[-1] if cls == "int" else -cs[-1], names[idx[-1]]))
        rhsc = tot
        rhs_t.append(_lit(int(rhsc)) if cls == "int" else _lit(float(rhsc)))
        lines.append("%s = %s" % (_join([_term(rng, c, names[i]) for c, i in zip(cs, lhs_idx)]), _join(rhs_t)))
    target = None
    if rng.random() < 0.3:
        target = rng.sample(names, len(names))
    return dict(kind="solve", cls=cls, variables=variables, nv=nv, text="\n".join(lines), target=target, stream="regular")


def _gen_matrix(rng):
    nv = rng.randint(1, 5)
    cls = rng.choice(["int", "dyadic", "dyadic", "zdyadic", "zdecimal", "decimal"])   # decimal: badly scaled entries (1e-300 ... 1e15)
    def entry():
        if rng.random() < 0.2:
            return 0 if cls == "int" else 0.0
        return _num(rng, cls)
    na, ng = rng.choice([(0, 1), (1, 0), (1, 1), (2, 1), (1, 2), (2, 3), (0, 2), (3, 0)])
    A = [[entry() for _ in range(nv)] for _ in range(na)]
    G = [[entry() for _ in range(nv)] for _ in range(ng)]
    b = [_const(rng, cls) for _ in range(na)]
    h = [_const(rng, cls) for _ in range(ng)]
    bad = rng.random() < 0.08
    if bad and na:
        b = b + [1]
    variables = rng.choice([None, "x", "y", "names"])
    if variables == "names":
        variables = rng.choice(NAMES)[:nv]
    return dict(kind="linear_symbolic", nv=nv, A=A or None, b=b if A else None, G=G or None, h=h if G else None,
                variables=variables, stream="bad-dims" if (bad and na) else "regular", cls=cls)


def _gen_bounds(rng):
    nv = rng.randint(1, 5)
    lo, hi = [], []
    for _ in range(nv):
        a = rng.choice([None, None, -10, -1.5, 0, 0.5, 2, 1e-5, -1e10, 0.25, 3])
        b = rng.choice([None, None, 10, 1.5, 0, 0.5, 69, 1e5, 2.0, 0.75, 3])
        if a is not None and b is not None and a > b and rng.random() < 0.85:
            a, b = b, a
        lo.append(a); hi.append(b)
    variables = rng.choice([None, "x", "y", "names"])
    if variables == "names":
        variables = rng.choice(NAMES)[:nv]
    return dict(kind="symbolic_bounds", nv=nv, lo=lo, hi=hi, variables=variables, stream="regular", cls="mixed")


def _gen_algebra(rng):
    names = ["x0", "x1", "x2"]
    sides = [("x0", "0"), ("x0", "1"), ("x1", "x0 + 2"), ("x0 + x1", "3"), ("2*x0", "x2")]
    n = rng.randint(1, 5)
    pool = rng.sample(sides, rng.randint(1, 2))
    eqs = []
    for _ in range(n):
        l, r = rng.choice(pool)
        eqs.append("%s %s %s" % (l, rng.choice(CMP_TXT), r))
    return dict(kind="algebra", eqs=eqs, inclusive=rng.random() < 0.5, nv=3, variables="x", stream="regular", cls="int")


def generate(rng, n, tier):
    kinds = ["simplify"] * 10 + ["simplify_div"] * 4 + ["solve"] * 3 + ["linear_symbolic"] * 2 + ["symbolic_bounds"] + ["algebra"] * 2
    # exhaustive part: all single-line systems with coefficients in {+-1, +-2, +-1/2} over 2 variables x 6 comparators
    if tier == "thorough":
        for a in (1, -1, 2, -2, 0.5, -0.5):
            for b in (1, -1, 2, -2, 0.5, -0.5):
                for c in CMP_TXT:
                    yield dict(kind="simplify", cls="dyadic", variables="x", nv=2, text="%r*x0 + %r*x1 %s 1" % (a, b, c),
                               stream="exhaustive", rseed=7)
    for _ in range(n):
        k = rng.choice(kinds)
        yield {"simplify": _gen_simplify, "simplify_div": _gen_div, "solve": _gen_solve, "linear_symbolic": _gen_matrix,
               "symbolic_bounds": _gen_bounds, "algebra": _gen_algebra}[k](rng)


# ------------------------------------------------------------------ driver

def _quiet(f):
    buf = io.StringIO()
    with contextlib.redirect_stdout(buf):
        return f()


def _res(f):
    try:
        r = _quiet(f)
    except BaseException as e:      # SyntaxError etc. are raised on systems outside the class
        if isinstance(e, (KeyboardInterrupt, SystemExit)):
            raise
        return {"status": "raised", "error": type(e).__name__}
    if r is None:
        return {"status": "none"}
    if isinstance(r, str):
        return {"status": "ok", "cases": [r]}
    if isinstance(r, tuple) and all(isinstance(x, str) for x in r):
        return {"status": "ok", "cases": list(r)}
    return {"status": "other", "repr": repr(r)[:200]}


def run_impl(case):
    from mystic import symbolic as S
    k = case["kind"]
    if k in ("simplify", "simplify_div"):
        # an earlier call on the same text that asked for one (randomly chosen) case only must not influence the call that asks for all cases
        try:
            random.seed(case.get("rseed", 0) + 1)
            import io as _io, contextlib as _cl
            with _cl.redirect_stdout(_io.StringIO()):
                S.simplify(case["text"], variables=case["variables"])
        except Exception:
            pass
        random.seed(case.get("rseed", 0))   # mystic decides flips with random test points: make the run reproducible
        return _res(lambda: S.simplify(case["text"], variables=case["variables"], all=True))
    if k == "solve":
        kw = {}
        if case.get("target"):
            kw["target"] = list(case["target"])
        return _res(lambda: S.solve(case["text"], variables=case["variables"], **kw))
    if k == "linear_symbolic":
        import copy
        c = copy.deepcopy(case)
        return _res(lambda: S.linear_symbolic(c["A"], c["b"], c["G"], c["h"], variables=c["variables"]))
    if k == "symbolic_bounds":
        return _res(lambda: S.symbolic_bounds(list(case["lo"]), list(case["hi"]), variables=case["variables"]))
    if k == "algebra":
        eqs = case["eqs"]
        out = {"status": "ok"}
        out["flip"] = [S.flip(e) for e in eqs]
        out["flipb"] = [S.flip(e, True) for e in eqs]
        out["_flip"] = [[S._flip(c), S._flip(c, True)] for c in CMP_TXT + ["=="]]
        out["comparator"] = [S.comparator(e) for e in eqs]
        m = S.merge(*eqs, inclusive=case["inclusive"])
        out["merge"] = None if m is None else sorted(m)
        return out
    raise ValueError(k)


# ------------------------------------------------------------------ interpretation of a run (shared by oracle / coq_terms / classify)

def _vi(case):
    v = case.get("variables")
    if v is None:
        v = "x"
    return U.varindex_for(v, nmax=max(8, case.get("nv", 5) + 1))


_NUMTOK = re.compile(r"(?<![A-Za-z_0-9])(\d+\.\d*|\.\d+|\d+)(?:[eE][+-]?\d+)?")


def _truncated_literal(text):
    """sympy prints floats with 15 significant digits (padding bare constants with zeros, stripping trailing zeros inside
    expressions): a literal that still has >= 12 significant digits after removing trailing zeros, or >= 10 of them in a
    15-digit print, is taken to be a rounded value (class 'inexact': tolerance comparison, no certificate)"""
    for m in _NUMTOK.finditer(text):
        mant = m.group(1)
        full = mant.replace(".", "").lstrip("0")
        stripped = (mant.rstrip("0") if "." in mant else mant.rstrip("0")).replace(".", "").lstrip("0")
        if len(stripped) >= 12 or (len(full) >= 15 and len(stripped) >= 10):
            return True
    return False


def _solve_residual_ok(inp, outl, tol):
    """substitute the solved form into every input equation: all residual coefficients vanish up to rounding"""
    sub = {}
    for o in outl:
        lo = U.linearize(o[2])
        if o[0][0] != "v" or lo is None or o[1] != "=":
            return False
        sub[o[0][1]] = lo
    if any(w in sub for lo in sub.values() for w in lo[0]):
        return False
    for r in inp:
        la, lb = U.linearize(r[0]), U.linearize(r[2])
        if la is None or lb is None:
            return False
        d = U._add(la, U._scale(lb, Fraction(-1)))
        res, mag = {}, {}
        def acc(key, val):
            res[key] = res.get(key, 0) + val
            mag[key] = mag.get(key, 0) + abs(val)
        acc(None, d[1])
        for w, c in d[0].items():
            if w in sub:
                for u, cu in sub[w][0].items():
                    acc(u, c * cu)
                acc(None, c * sub[w][1])
            else:
                acc(w, c)
        if any(abs(res[k_]) > tol * mag[k_] for k_ in res):
            return False
    return True


def _opposing(rels):
    """python's merge sees two lines with textually identical sides and opposite comparators"""
    flipc = {"<": ">", "<=": ">=", ">=": "<=", ">": "<"}
    flipb = {">=": "<", ">": "<=", "<=": ">", "<": ">="}
    for i, r in enumerate(rels):
        for j, s in enumerate(rels):
            if i != j and r[1] in flipc and r[0] == s[0] and r[2] == s[2] and s[1] in (flipc[r[1]], flipb[r[1]]):
                return True
    return False


def _merge_incl(rels):
    """independent re-statement of symbolic.merge(inclusive=True) on parsed lines (only used to recognise finding A)"""
    flipc = {"<": ">", "<=": ">=", ">=": "<=", ">": "<"}
    flipb = {">=": "<", ">": "<=", "<=": ">", "<": ">="}
    def has(l, c, r, pool):
        return any(p[0] == l and p[1] == c and p[2] == r for p in pool)
    e1 = [(r[0], "!=", r[2]) if r[1] in ("<", ">") and has(r[0], flipc[r[1]], r[2], rels) else r for r in rels]
    out = []
    for r in e1:
        if r[1] in flipc and (has(r[0], flipc[r[1]], r[2], e1) or has(r[0], flipb[r[1]], r[2], e1)):
            continue
        if r not in out:
            out.append(r)
    return out


def _degenerate(rel):
    """None, or the constant truth value of a line in which every variable cancels"""
    la, lb = U.linearize(rel[0]), U.linearize(rel[2])
    if la is None or lb is None:
        return None
    d = U._add(la, U._scale(lb, Fraction(-1)))
    if any(c != 0 for c in d[0].values()):
        return None
    return U.cmp_holds(rel[1], d[1], Fraction(0))


def _model_input(rels):
    """what mystic's pre-processing makes of the input according to the known findings A and C:
    inclusive pre-merge of opposing lines, '='/'!=' lines without surviving variables dropped"""
    notes = []
    cur = list(rels)
    if _opposing(cur):
        cur = _merge_incl(cur)
        notes.append("A")
    kept = []
    for r in cur:
        dg = _degenerate(r)
        if dg is not None and r[1] in ("=", "!="):
            if dg is False:
                notes.append("C")
            continue
        kept.append(r)
    return kept, notes


def interpret(case, obs):
    """-> dict(status, input, cases, mode, ...) ; status in ok / none / raised / unparsed / other"""
    k = case["kind"]
    out = dict(status=obs.get("status"), kind=k)
    if k == "algebra" or obs.get("status") not in ("ok", "none"):
        return out
    vi = _vi(case)
    nv = case["nv"]
    try:
        if k in ("simplify", "simplify_div", "solve"):
            out["input"] = U.parse_sys(case["text"], vi)
        texts = obs.get("cases", []) if obs["status"] == "ok" else []
        out["cases"] = [U.parse_sys(t, vi) for t in texts]
    except U.ParseError as e:
        out["status"] = "unparsed"; out["why"] = str(e)
        return out
    used = U.sys_vars([r for s in out["cases"] for r in s]) | U.sys_vars(out.get("input", []))
    out["nv"] = max([nv] + [v + 1 for v in used])
    # exact unless sympy printed a truncated float, or the returned coefficients agree with the exact isolation only up to
    # rounding (then: tolerance comparison of canonical forms, sample points away from the boundary, no certificate)
    mode = "inexact" if any(_truncated_literal(t) for t in obs.get("cases", [])) else "exact"
    if mode == "exact" and k in ("simplify", "simplify_div") and len(out["cases"]) == 1:
        pre, _ = _model_input(out["input"])
        if py_lines_match(pre, out["cases"][0], Fraction(0)) is False and py_lines_match(pre, out["cases"][0], TOL) is True:
            mode = "inexact"
    out["mode"] = mode
    return out


def _close(a, b, tol):
    return abs(a - b) <= tol * (1 + abs(b))


def _py_iso_matches(r, o, tol):
    """output line o = isolation of input line r for the variable on o's left (mirror of Symbolic.iso_matches)"""
    if o[0][0] != "v":
        return False
    v = o[0][1]
    lo = U.linearize(o[2])
    la, lb = U.linearize(r[0]), U.linearize(r[2])
    if lo is None or la is None or lb is None:
        return False
    d = U._add(la, U._scale(lb, Fraction(-1)))
    a = d[0].get(v, Fraction(0))
    if a == 0:
        return False
    flipc = {"<": ">", "<=": ">=", ">=": "<=", ">": "<", "=": "=", "!=": "!="}
    c = flipc[r[1]] if a < 0 else r[1]
    if c != o[1]:
        return False
    exp = ({w: -x / a for w, x in d[0].items() if w != v}, -d[1] / a)
    ws = set(exp[0]) | set(lo[0])
    return _close(exp[1], lo[1], tol) and all(_close(exp[0].get(w, Fraction(0)), lo[0].get(w, Fraction(0)), tol) for w in ws)


def py_lines_match(pre, outl, tol):
    """None when the comparison does not apply (non-linear, merged lines), else bool"""
    if len(pre) != len(outl) or not outl:
        return None
    if not all(U.linearize(r[0]) is not None and U.linearize(r[2]) is not None for r in pre + outl):
        return None
    if not all(o[0][0] == "v" for o in outl):
        return None
    return all(any(_py_iso_matches(r, o, tol) for r in pre) for o in outl) and \
        all(any(_py_iso_matches(r, o, tol) for o in outl) for r in pre)


# ------------------------------------------------------------------ oracle

def _fail(clause, site, pattern, detail):
    return dict(clause=clause, site=site, pattern=pattern, detail=detail)


def _points(case, I, rng_seed=11):
    rng = random.Random(rng_seed)
    pts = U.sample_points(I.get("input", []), I["cases"], I["nv"], rng)
    for p in case.get("extra_points", []):
        q = [Fraction(x) for x in p]
        pts.append((q + [Fraction(0)] * I["nv"])[:I["nv"]])
    return pts


def _near_boundary(rels, p):
    for r in rels:
        m = U.margin(r, p)
        if m is not None and m < TOL:
            return True
    return False


def _new_divisors(inp, cases):
    """divisor expressions of the output that are not divisors of the input"""
    din = [d for r in inp for s in (r[0], r[2]) for d in U.divisors(s)]
    out = []
    for c in cases:
        for r in c:
            for s in (r[0], r[2]):
                for d in U.divisors(s):
                    if d not in din and d not in out and U.vars_of(d):
                        out.append(d)
    return out


def _zero_of_new_divisor(newdivs, p):
    for d in newdivs:
        try:
            if U.ev(d, p) == 0:
                return True
        except U.Undefined:
            return True
    return False


FLOAT_MAX = Fraction(1.7976931348623157e308)


def _coeffs(e, acc=None):
    acc = [] if acc is None else acc
    if e[0] == "c":
        acc.append(e[1])
    elif e[0] == "v":
        pass
    elif e[0] in ("neg", "pow"):
        _coeffs(e[1], acc)
    else:
        _coeffs(e[1], acc); _coeffs(e[2], acc)
    return acc


def _overflow_lines(case_rels):
    """returned lines carrying a constant that no float can hold: mystic's own test-point evaluation of such a line
    produces inf/nan, so its decision whether to flip the comparator is arbitrary there (finding E)"""
    return [i for i, r in enumerate(case_rels) if any(abs(c) > FLOAT_MAX for c in _coeffs(r[0]) + _coeffs(r[2]))]


def _swamped_input(inp):
    """an input line whose coefficients span more than 2**53: evaluated at a float test point the small terms vanish next to the large
    ones (1e15*u + 4e-7 == 1e15*u), so mystic's decision whether to flip is arbitrary there - the same finding E, without any overflow"""
    for r in inp:
        cs = [abs(c) for c in _coeffs(r[0]) + _coeffs(r[2]) if c != 0]
        if cs and max(cs) / min(cs) > 2 ** 53:
            return True
    return False


def _new_divisor_vars(inp, cases):
    din = set()
    for r in inp:
        for s in (r[0], r[2]):
            for d in U.divisors(s):
                din |= U.vars_of(d)
    dout = set()
    for c in cases:
        for r in c:
            for s in (r[0], r[2]):
                for d in U.divisors(s):
                    dout |= U.vars_of(d)
    return dout - din


def D(x):
    """the rational a python number spells when printed (str(float) round-trips; ints are exact)"""
    if isinstance(x, float):
        return Fraction(repr(x))
    return Fraction(x)


def _direct_matrix(case, p):
    F = D
    ok = True
    if case["A"] is not None:
        for row, bi in zip(case["A"], case["b"]):
            ok = ok and sum(F(c) * x for c, x in zip(row, p)) == F(bi)
    if case["G"] is not None:
        for row, hi in zip(case["G"], case["h"]):
            ok = ok and sum(F(c) * x for c, x in zip(row, p)) <= F(hi)
    return ok


def _direct_bounds(case, p):
    F = D
    ok = True
    for a, b, x in zip(case["lo"], case["hi"], p):
        if a is not None and a != -math.inf:
            ok = ok and F(a) <= x
        if b is not None and b != math.inf:
            ok = ok and x <= F(b)
    return ok


def oracle(case, obs):
    """C12 evaluated directly on mystic's answer with an independent exact interpreter (no Coq model involved)"""
    if "__exception__" in obs:
        return [_fail("no-crash-in-driver", "harness", obs["__exception__"], obs.get("__msg__"))]
    k = case["kind"]
    if k == "algebra":
        return _oracle_algebra(case, obs)
    I = interpret(case, obs)
    st = I["status"]
    if k == "linear_symbolic":
        dims_ok = (case["A"] is None or len(case["A"]) == len(case["b"])) and (case["G"] is None or len(case["G"]) == len(case["h"]))
        if not dims_ok:
            return [] if st == "raised" else [_fail("dimension-error", "symbolic.linear_symbolic", "bad-dims-accepted", obs)]
        if st != "ok":
            return [_fail("text-returned", "symbolic.linear_symbolic", st, obs)]
        pts = _points(case, dict(I, input=I["cases"][0]))
        for p in pts:
            if U.holds_sys(I["cases"][0], p) != _direct_matrix(case, p[:case["nv"]]):
                return [_fail("text-holds-where-matrices-hold", "symbolic.linear_symbolic", "matrix-text", dict(point=[str(x) for x in p]))]
        return []
    if k == "symbolic_bounds":
        bad = any(a is not None and b is not None and a > b for a, b in zip(case["lo"], case["hi"]))
        if bad:
            return [] if st == "raised" else [_fail("min-le-max-error", "symbolic.symbolic_bounds", "bad-bounds-accepted", obs)]
        if st != "ok":
            return [_fail("text-returned", "symbolic.symbolic_bounds", st, obs)]
        pts = _points(case, dict(I, input=I["cases"][0]))
        for a, b in zip(case["lo"], case["hi"]):      # the bounds themselves and their neighbours
            for v in (a, b):
                if v is not None:
                    for dlt in (0, Fraction(1, 10**12), -Fraction(1, 10**12)):
                        for j in range(case["nv"]):
                            q = [Fraction(0)] * I["nv"]; q[j] = D(v) + dlt
                            pts.append(q)
        for p in pts:
            if U.holds_sys(I["cases"][0], p) != _direct_bounds(case, p[:case["nv"]]):
                return [_fail("text-holds-where-bounds-hold", "symbolic.symbolic_bounds", "bounds-text", dict(point=[str(x) for x in p]))]
        return []
    # simplify / simplify_div / solve
    if st in ("raised", "other", "unparsed"):
        return []          # the property only speaks about returned results inside the class
    site = "symbolic.simplify" if k != "solve" else "_symbolic.solve"
    inp, cases = I["input"], I["cases"]
    if k == "solve":
        if st == "none":
            return []
        # consistent by construction: a solved form must be returned and have the same solutions
        if any(r[1] != "=" for s in cases for r in s):
            return [_fail("solved-form", site, "not-equalities", obs)]
    if st == "none":
        cases = []      # mystic says: no solution
    pts = _points(case, I)
    inexact = I["mode"] == "inexact"
    allrels = inp + [r for s in cases for r in s]
    if inexact and k == "solve" and len(cases) == 1:
        if not _solve_residual_ok(inp, cases[0], TOL) or len(cases[0]) > len(inp):
            return [_fail("same-points", site, "inexact-solved-form-residual", dict(output=obs.get("cases")))]
    if inexact and k != "solve" and len(cases) == 1:
        pre, _ = _model_input(inp)
        if py_lines_match(pre, cases[0], TOL) is False:
            # constants at the edge of the float range in the INPUT (they may cancel in the output): the flip decision, taken by evaluating
            # the line at a float test point, is swamped (1e300 + x == 1e300): known finding flip-decision-float-overflow when flipping
            # the comparator of some lines back makes the forms agree
            import re as _re, itertools as _it
            if _re.search(r"e[+-]?300", case.get("text", "")):
                flipc = {"<": ">", "<=": ">=", ">=": "<=", ">": "<", "=": "=", "!=": "!="}
                idx = [i for i, r in enumerate(cases[0]) if r[1] not in ("=", "!=")]
                for k_ in range(1, len(idx) + 1):
                    for sub in _it.combinations(idx, k_):
                        alt = [(r[0], flipc[r[1]], r[2]) if i in sub else r for i, r in enumerate(cases[0])]
                        if py_lines_match(pre, alt, TOL) is not False:
                            return [_fail("same-points", "symbolic._simplify1", "flip-decision-float-overflow", dict(output=obs.get("cases"), flipped=list(sub)))]
            return [_fail("same-points", site, "inexact-canonical-form-mismatch", dict(output=obs.get("cases")))]
    mism = []
    for p in pts:
        if inexact and _near_boundary(allrels, p):
            continue
        a, b = U.holds_sys(inp, p), U.holds_cases(cases, p)
        if a != b:
            mism.append((p, a, b))
    if not mism:
        return []
    # is the difference exactly one of the known findings?
    minp, notes = _model_input(inp) if k != "solve" else (inp, [])
    newdiv = _new_divisors(inp, cases)
    left, usedB = [], False
    for p, a, b in mism:
        if newdiv and a and not b and _zero_of_new_divisor(newdiv, p):
            usedB = True
            continue
        if U.holds_sys(minp, p) != b:
            left.append((p, a, b))
    det = dict(point=[str(x) for x in mism[0][0]], input_holds=mism[0][1], output_holds=mism[0][2], n_points=len(mism),
               output=obs.get("cases"))
    if left and len(cases) == 1 and (_overflow_lines(cases[0]) or _swamped_input(inp)):
        # are the remaining differences explained by flipping back the comparator of overflowing lines (or, for a swamped input, of any lines)?
        flipc = {"<": ">", "<=": ">=", ">=": "<=", ">": "<", "=": "=", "!=": "!="}
        idx = _overflow_lines(cases[0]) or [i for i, r in enumerate(cases[0]) if r[1] not in ("=", "!=")][:4]
        import itertools
        for k_ in range(1, len(idx) + 1):
            for sub in itertools.combinations(idx, k_):
                alt = [[(r[0], flipc[r[1]], r[2]) if i in sub else r for i, r in enumerate(cases[0])]]
                if all(U.holds_sys(minp, p) == U.holds_cases(alt, p) for p, a, b in left):
                    p, a, b = left[0]
                    det = dict(point=[str(x) for x in p], input_holds=a, output_holds=b, n_points=len(left), output=obs.get("cases"))
                    return [_fail("same-points", "symbolic._simplify1", "flip-decision-float-overflow", det)]
    if left:
        p, a, b = left[0]
        det = dict(point=[str(x) for x in p], input_holds=a, output_holds=b, n_points=len(left), output=obs.get("cases"))
        pat = "inexact-beyond-tolerance" if inexact else ("lost-solutions" if a else "spurious-solutions")
        return [_fail("same-points", site, pat, det)]
    fails = []
    if "A" in notes and any(U.holds_sys(minp, p) != a for p, a, b in mism):
        fails.append(_fail("same-points", "symbolic.absval", "opposing-bounds-merged-inclusive", det))
    if "C" in notes and not fails:
        fails.append(_fail("same-points", "symbolic._simplify1", "cancelling-equality-dropped", det))
    if usedB and not fails:
        fails.append(_fail("same-points", "symbolic._simplify1", "new-divisor-zero-dropped", det))
    if not fails:   # explained by the adjustments but none is active: should not happen
        fails.append(_fail("same-points", site, "unexplained", det))
    return fails


_CMPS_ALL = CMP_TXT + ["=="]


def _oracle_algebra(case, obs):
    out = []
    flipc = {"<": ">", "<=": ">=", ">=": "<=", ">": "<", "=": "=", "!=": "!=", "==": "=="}
    flipb = {">=": "<", ">": "<=", "<=": ">", "<": ">=", "=": "=", "!=": "!=", "==": "=="}
    for c, (a, b) in zip(_CMPS_ALL, obs["_flip"]):
        if a != flipc[c] or b != flipb[c]:
            out.append(_fail("flip-table", "symbolic._flip", "table", [c, a, b]))
    vi = _vi(case)
    rels = [U.parse_rel(e, vi) for e in case["eqs"]]
    rng = random.Random(3)
    pts = [[rng.choice(U.GRID) for _ in range(3)] for _ in range(40)] + U.boundary_points(rels, 3, rng)
    for e, r, f, fb, cm in zip(case["eqs"], rels, obs["flip"], obs["flipb"], obs["comparator"]):
        if cm != r[1]:
            out.append(_fail("comparator", "symbolic.comparator", "wrong", [e, cm]))
        rf, rb = U.parse_rel(f, vi), U.parse_rel(fb, vi)
        for p in pts:
            # flip: the relation with its sides swapped;  flip(bounds): the complement (inequalities only)
            if U.holds(rf, p) != U.holds((r[2], r[1], r[0]), p):
                out.append(_fail("flip-sound", "symbolic.flip", "swap", [e, f])); break
            if r[1] in ("<", "<=", ">=", ">") and U.holds(rb, p) == U.holds(r, p):
                out.append(_fail("flip-bounds-complement", "symbolic.flip", "complement", [e, fb])); break
    if not case["inclusive"]:
        m = obs["merge"]
        for p in pts:
            a = U.holds_sys(rels, p)
            b = False if m is None else U.holds_sys([U.parse_rel(e, vi) for e in m], p)
            if a != b:
                out.append(_fail("merge-sound", "symbolic.merge", "exclusive", dict(eqs=case["eqs"], merged=m, point=[str(x) for x in p])))
                break
    return out


# ------------------------------------------------------------------ Coq side

PREAMBLE = r"""
From Coq Require Import Lqa.
From MV Require Import Pure.SymExpr Pure.Symbolic Pure.Symbolic_Proofs.
Open Scope Q_scope.

(* ---- certificates:  forall env, holds_sys env INPUT <-> holds_cases env OUTPUT  *)
Ltac c12_open := cbn [holds_sys holds_cases].
Ltac c12_arith := unfold holds; cbn [lhs rhs rcmp with_cmp defined eval cmp_holds flipc qpow]; first [ lra | nra ].

Ltac c12_clear_with env d H lem :=
  repeat match goal with
  | |- context [holds env ?r] =>
      lazymatch eval vm_compute in (rel_divfree r) with
      | false => lazymatch eval vm_compute in (clear_rel d r) with
                 | Some ?r' => rewrite (lem env d r r' eq_refl H) end
      end
  end.
Ltac c12_zero_with env d H :=
  repeat match goal with
  | |- context [holds env ?r] =>
      lazymatch eval vm_compute in (rel_divfree r) with
      | false => lazymatch eval vm_compute in (clear_rel d r) with
                 | Some ?r' => rewrite (clear_zero env d r r' eq_refl eq_refl H) end
      end
  end.
(* sign split on x_d; the divisor x_d is cleared with the proved lemmas clear_neg / clear_zero / clear_pos *)
Ltac c12_split env d k :=
  destruct (Qlt_le_dec (env d) 0) as [?|?];
  [ match goal with H : env d < 0 |- _ => c12_clear_with env d H clear_neg end; k
  | destruct (Qeq_dec (env d) 0) as [?|?];
    [ match goal with H : env d == 0 |- _ => c12_zero_with env d H end; k
    | assert (0 < env d) by lra;
      match goal with H : 0 < env d |- _ => c12_clear_with env d H clear_pos end; k ] ].
Ltac c12_cert0 := let env := fresh "env" in intro env; intros; c12_open; c12_arith.
Ltac c12_cert1 d1 := let env := fresh "env" in intro env; intros; c12_open; c12_split env d1 ltac:(c12_arith).
Ltac c12_cert2 d1 d2 := let env := fresh "env" in intro env; intros; c12_open;
  c12_split env d1 ltac:(c12_split env d2 ltac:(c12_arith)).

(* ---- canonical-form comparisons *)
Definition sys_set_eqb (a b : sys) : bool := forallb (fun r => rmem r b) a && forallb (fun r => rmem r a) b.
Definition osys_set_eqb (a : option sys) (b : option sys) : bool :=
  match a, b with Some x, Some y => sys_set_eqb x y | None, None => true | _, _ => false end.
Definition olin_eqb (a b : option lin) : bool :=
  match a, b with Some x, Some y => lin_eqb x y | _, _ => false end.
Definition rel_lin_eqb (r s : rel) : bool :=
  cmp_eqb (rcmp r) (rcmp s) && olin_eqb (linearize (lhs r)) (linearize (lhs s)) && olin_eqb (linearize (rhs r)) (linearize (rhs s)).
Fixpoint sys_lin_eqb (a b : sys) : bool :=
  match a, b with
  | [], [] => true
  | r :: a', s :: b' => rel_lin_eqb r s && sys_lin_eqb a' b'
  | _, _ => false
  end.
Definition osys_lin_eqb (a : option sys) (b : sys) : bool := match a with Some x => sys_lin_eqb x b | None => false end.
Definition is_none {B} (o : option B) : bool := match o with None => true | _ => false end.
"""


def coq_preamble():
    return PREAMBLE


def _printable(e):
    """constant sub-expressions used as divisors become multiplications by the exact reciprocal (the printer's only rewrite)"""
    k = e[0]
    if k in ("c", "v"):
        return e
    if k in ("neg",):
        return ("neg", _printable(e[1]))
    if k == "pow":
        return ("pow", _printable(e[1]), e[2])
    a, b = _printable(e[1]), _printable(e[2])
    if k == "/" and not U.vars_of(b):
        try:
            v = U.ev(b, [])
            if v != 0:
                return ("*", a, ("c", 1 / v))
        except (U.Undefined, IndexError):
            pass
    return (k, a, b)


def _prel(r):
    return (_printable(r[0]), r[1], _printable(r[2]))


def _divisor_plan(rels):
    """variables to split on, or None if some divisor is not a plain variable over a division-free numerator"""
    dv = []
    for r in rels:
        for s in (r[0], r[2]):
            for d in U.divisors(s):
                if d[0] != "v":
                    return None
                if d[1] not in dv:
                    dv.append(d[1])
            if not _mulden_ok(s):
                return None
        here = set()
        for s in (r[0], r[2]):
            for d in U.divisors(s):
                here.add(d[1])
        if len(here) > 1:
            return None
    return dv


def _divfree(e):
    return not U.divisors(e)


def _mulden_ok(e):
    """mirror of Symbolic.mulden's domain"""
    if _divfree(e):
        return True
    k = e[0]
    if k == "neg":
        return _mulden_ok(e[1])
    if k in ("+", "-"):
        return _mulden_ok(e[1]) and _mulden_ok(e[2])
    if k == "*":
        if _divfree(e[1]):
            return _mulden_ok(e[2])
        if _divfree(e[2]):
            return _mulden_ok(e[1])
        return False
    if k == "/":
        return e[2][0] == "v" and _divfree(e[1])
    return False


def _certificate(inp_term, inp_rels, cases, hyps=()):
    """bool term: true iff Coq proves  forall env, hyps -> (holds_sys env INPUT <-> holds_cases env CASES)"""
    allrels = [_prel(r) for r in inp_rels] + [_prel(r) for s in cases for r in s]
    plan = _divisor_plan(allrels)
    if plan is None or len(plan) > 2:
        return None
    tac = "c12_cert0" if not plan else ("c12_cert%d %s" % (len(plan), " ".join("%d%%nat" % d for d in plan)))
    hy = "".join("~ env %d%%nat == 0 -> " % v for v in hyps)
    stmt = "forall env : nat -> Q, %s(holds_sys env %s <-> holds_cases env %s)" % (
        hy, inp_term, U.coq_cases([[_prel(r) for r in s] for s in cases]))
    return "ltac:(first [ assert (%s) by (%s); exact true | exact false ])" % (stmt, tac)


def _sys_term(rels):
    return U.coq_sys([_prel(r) for r in rels])


def coq_terms(case, obs):
    if "__exception__" in obs:
        return []
    k = case["kind"]
    T = []
    if k == "algebra":
        vi = _vi(case)
        rels = [U.parse_rel(e, vi) for e in case["eqs"]]
        for r, f, fb in zip(rels, obs["flip"], obs["flipb"]):
            T.append("rel_eqb (flip %s false) %s" % (U.coq_rel(r), U.coq_rel(U.parse_rel(f, vi))))
            T.append("rel_eqb (flip %s true) %s" % (U.coq_rel(r), U.coq_rel(U.parse_rel(fb, vi))))
        m = obs["merge"]
        mt = "None" if m is None else "(Some %s)" % U.coq_sys([U.parse_rel(e, vi) for e in m])
        if case["inclusive"]:
            T.append("osys_set_eqb (Some (merge_incl %s)) %s" % (U.coq_sys(rels), mt))
        else:
            T.append("osys_set_eqb (merge_excl %s) %s" % (U.coq_sys(rels), mt))
        return T
    I = interpret(case, obs)
    st = I["status"]
    if k == "linear_symbolic":
        def mat(M):
            return "([%s] : list (list Q))" % "; ".join(U.coq_qlist([D(x) for x in r]) for r in (M or []))
        model = "text_of_matrix %s %s %s %s" % (mat(case["A"]), U.coq_qlist([D(x) for x in (case["b"] or [])]), mat(case["G"]), U.coq_qlist([D(x) for x in (case["h"] or [])]))
        if st == "raised":
            return ["is_none (%s)" % model]
        if st != "ok":
            return []
        parsed = I["cases"][0]
        T.append("osys_lin_eqb (%s) %s" % (model, _sys_term(parsed)))
        T.append("ltac:(let s := eval vm_compute in (%s) in lazymatch s with Some ?t => first [ assert (forall env : nat -> Q, "
                 "holds_sys env %s <-> holds_cases env [t]) by c12_cert0; exact true | exact false ] | None => exact false end)"
                 % (model, _sys_term(parsed)))
        return T
    if k == "symbolic_bounds":
        def ob(xs):
            return "([%s] : list (option Q))" % "; ".join("None" if (x is None or abs(x) == math.inf) else "(Some %s)" % U.q(D(x)) for x in xs)
        model = "text_of_bounds %s %s" % (ob(case["lo"]), ob(case["hi"]))
        if st == "raised":
            return ["is_none (%s)" % model]
        if st != "ok":
            return []
        T.append("osys_lin_eqb (%s) %s" % (model, _sys_term(I["cases"][0])))
        return T
    if st not in ("ok", "none"):
        return []
    inp = I["input"]
    cases = I["cases"] if st == "ok" else []
    if k == "solve" and st == "none":
        return []
    if any(_overflow_lines(c) for c in cases):
        return []     # float overflow inside mystic's test-point evaluation is not modelled (finding E)
    import re as _re
    if _re.search(r"e[+-]?300", case.get("text", "")):
        return []     # ... nor is its being swamped by constants at the edge of the float range in the input (same finding)
    if _swamped_input(inp):
        return []     # ... or by coefficients of one line that span more than 2**53
    adjusted = False
    if k != "solve":
        minp, notes = _model_input(inp)
        adjusted = bool(notes) or len(minp) != len(inp)
    inp_term = _sys_term(inp)
    if adjusted:   # the statement is about the model's pre-processing, computed by Coq itself
        inp_term = "ltac:(let s := eval vm_compute in (simplify_pre %s) in exact s)" % inp_term
    if I["mode"] == "exact":
        hyps = sorted(_new_divisor_vars(inp, cases))
        cert = _certificate(inp_term, minp if adjusted else inp, cases, hyps)
        if cert:
            T.append(cert)
    # layer 1: every returned line is the model's isolation of an input line for the variable mystic put on the left
    if k != "solve" and len(cases) == 1:
        pre = minp if adjusted else inp
        outl = cases[0]
        linear = all(U.linearize(r[0]) is not None and U.linearize(r[2]) is not None for r in pre + outl)
        if linear and len(outl) == len(pre) and all(r[0][0] == "v" for r in outl):
            tol = U.q(TOL) if I["mode"] == "inexact" else "0"
            T.append("lines_match %s %s %s" % (tol, inp_term if adjusted else _sys_term(pre), _sys_term(outl)))
    return T


def coq_debug(case, obs, k):
    I = interpret(case, obs)
    if "input" in I:
        return "(simplify_pre %s, %s)" % (_sys_term(I["input"]), U.coq_cases([[_prel(r) for r in s] for s in I.get("cases", [])]))
    return "tt"


# ------------------------------------------------------------------ widen: z3 search for a distinguishing point

def widen(rng, cases, tier):
    out = []
    for case in cases:
        if case["kind"] not in ("simplify", "simplify_div", "solve"):
            continue
        obs = run_impl(case)
        I = interpret(case, obs)
        if I.get("status") not in ("ok", "none") or "input" not in I:
            continue
        inp = I["input"]
        if case["kind"] != "solve":
            inp, _ = _model_input(inp)
        st, pt = U.z3_distinguish([_prel(r) for r in inp], [[_prel(r) for r in s] for s in I.get("cases", [])], I["nv"])
        if st == "sat":
            if _zero_of_new_divisor(_new_divisors(I["input"], I.get("cases", [])), pt):
                continue      # finding B's point, already known
            out.append(dict(case, extra_points=case.get("extra_points", []) + [[str(x) for x in pt]]))
    return out


# ------------------------------------------------------------------ evidence

def classify(case, obs):
    k = case["kind"]
    tags = ["kind:" + k, "class:" + str(case.get("cls")), "stream:" + str(case.get("stream"))]
    st = obs.get("status", "crash")
    tags.append("status:" + st)
    nontrivial = st in ("ok", "none") and case.get("nv", 0) >= 1
    if k in ("simplify", "simplify_div", "solve") and st in ("ok", "none"):
        I = interpret(case, obs)
        tags.append("parsed:" + I["status"])
        if "cases" in I and I["status"] in ("ok", "none"):
            tags.append("ncases:%d" % len(I["cases"]))
            tags.append("mode:" + I.get("mode", "?"))
            ts = coq_terms(case, obs)
            tags.append("certificate:" + ("yes" if any(t.startswith("ltac:") for t in ts) else "no"))
            tags.append("lines_match:" + ("yes" if any(t.startswith("lines_match") for t in ts) else "no"))
            for r in I.get("input", []):
                tags.append("cmp:" + r[1])
            tags.append("variables:" + ("x" if case.get("variables") == "x" else "named"))
            tags.append("lines:%d" % len(I.get("input", [])))
    return json.dumps(case, sort_keys=True), nontrivial, tags


def shrink(case):
    if case["kind"] in ("simplify", "simplify_div", "solve"):
        lines = case["text"].split("\n")
        if len(lines) > 1:
            for i in range(len(lines)):
                yield dict(case, text="\n".join(lines[:i] + lines[i + 1:]))
    if case["kind"] == "algebra" and len(case["eqs"]) > 1:
        for i in range(len(case["eqs"])):
            yield dict(case, eqs=case["eqs"][:i] + case["eqs"][i + 1:])
