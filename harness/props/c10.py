"""C10 - termination conditions mean what they say, alone and in combination."""
from harness.props import c10_util as U
from harness.props.c10_util import (run_impl, oracle, generate, shrink, classify)   # noqa: F401
from harness.props.c10_coq import coq_preamble, coq_terms, coq_debug                 # noqa: F401

ID = "C10"
TITLE = "Termination conditions mean what they say, alone and in combination"
PROPS_FILE = "Props/Properties_C10.v"
LEVEL = "proof"
SIZES = {"quick": 3000, "thorough": 20000}
PARALLEL = True
SHARD = 250
COQ_TIMEOUT = 900
EXHAUSTIVE = {"quick": False, "thorough": True}
RULE = ("a case = (solver view, expression tree over <= 6 primitive conditions); kinds: leaf (one primitive, tie-targeted "
        "tolerance/window), tree (random And/Or/When expression of depth <= 4, some with shared condition objects, empty "
        "compounds, single compound arguments), witness (the minimal inputs of the known findings, every run), sweep (thorough: EVERY constructor expression with <= 5 nodes over 3 shared leaves + empty And/Or, x all 8 truth assignments, plus a strided sample of the 6- and 7-node expressions); "
        "histories of length 0..40 on a coarse dyadic grid with plateaus/ties/+-inf plus generic floats; windows None/0/1../len-1/"
        "len/len+1/30/negative/float; tolerances 0/tiny/huge/negative/nan/exact tie/one ulp either side; settings passed as plain Python numbers or (about a quarter of the cases, leaves and trees) as numpy.float64/numpy.int64 scalars and numpy-array elements, whose repr state() must eval back; non-trivial = the history "
        "or population is non-empty and, for trees, at least one compound node; distinct = distinct case JSON")
TRUSTED = ["stub solver object carrying the view (attributes read by the conditions: energy_history, population, popEnergy, "
           "bestSolution, trialSolution, generations, _fcalls, _EARLYEXIT, gradient, _cost) and a scripted clock patched over "
           "time.time/perf_counter/process_time for TimeLimits",
           "Python's repr/eval of floats and int() (used by mystic.termination.state and by the harness to print windows)",
           "real-number axioms of Coq's standard library for the NumR corollaries (documented inequalities over R)"]
ASSUMPTIONS = ["IEEE rounding inside the inequalities is executed bit-exactly by the model (PrimFloat) but the theorems relating "
               "them to the documented real-number inequalities are over R: float rounding is modelled, not verified",
               "numpy's pairwise summation order for >= 8 summands is not modelled: SolutionImprovement / L1 gradient norm are compared "
               "on < 8 coordinates for generic floats and on dyadic (exactly summable) values above that",
               "GradientNormTolerance is modelled for norm in {inf, 1, 0} over a recorded/oracle gradient; general p-norms are not modelled",
               "NaN energies/coordinates are excluded from generated inputs (NaN arising inside from inf-inf is covered)",
               "Collapse* conditions belong to C11", "the info='not' mode is not modelled"]
META = dict(
    technique="Coq proof (per-primitive characterisation over any Num + R corollaries; structural induction over condition trees) "
              "+ bit-exact model/implementation correspondence by vm_compute on PrimFloat",
    level_text=("Each primitive condition is characterised by an iff theorem over its history/population window (any Num instance), "
                "with real-number corollaries stating the documented inequality (full for tolerance >= 0; refuted-by-witness and partial "
                "theorems where the code departs from the documentation); And/Or/When evaluation equals the intended all/some/member "
                "meaning at any depth for trees whose members are distinct as dictionary keys; info names only satisfied leaves and is "
                "empty iff unsatisfied (no empty And); rebuilding from type+state is the identity on constructor-reachable objects whose "
                "When nodes have one member.  Constructor flattening (When(Or(a,b)), And(Or(a,b)), Or(And(a,b))) and dict-key collisions "
                "of equal member tuples are refuted by witnesses and reported as known findings."),
    level_note=("Trusted: Coq kernel+VM, harness printers/stub solver/scripted clock/oracles; R corollaries use stdlib real axioms; "
                "float rounding modelled not verified; general p-norm gradients and Collapse* conditions not modelled."),
    design_ref="5/C10")
