"""C01 - Reported optimum is a genuinely evaluated point with its true energy (solver machine; see solver_common.py / solverlib.py)."""
from harness.props import solver_common as SC

ID = "C01"
TITLE = 'Reported optimum is a genuinely evaluated point with its true energy'
PROPS_FILE = "Props/Properties_C01.v"
LEVEL = "proof"
SIZES = {"quick": 700, "thorough": 8000}
PARALLEL = SC.PARALLEL
SHARD = SC.SHARD
COQ_TIMEOUT = SC.COQ_TIMEOUT
RULE = 'API scripts (config ops in random order, Step/Solve, mid-run Set*, Finalize, exit requests) on DE/DE2/NM/Powell, dims 1-3, coarse/tie-heavy and smooth costs, vector costs with reducers, idempotent box-compatible constraints (pure/in place), penalties; non-trivial = at least 2 executed iterations'
TRUSTED = SC.TRUSTED
ASSUMPTIONS = SC.ASSUMPTIONS
META = dict(technique='Coq proof (invariant over op sequences of the solver machine; DE selection loop by induction) + trace correspondence by vm_compute',
            level_text="Theorems (all costs, penalties, constraints, trial streams, op sequences): every logged call carries reduced cost + penalty at the logged point; for both DE solvers members and reported best are logged calls with the energy obtained there (or infinite), and the best never worsens; for Nelder-Mead (idempotent constraints, clean runs) every vertex energy is the energy a real call returned at the constrained vertex, and once the initial evaluation is logged the reported best is an evaluated point with the energy obtained there, satisfies the constraints and is the last step-monitor record (C01_nm_reported_best); the order hypotheses are shown satisfiable in an executable instance (rationals with +infinity) and a concrete run meets the premises. The machine (DE, DE2, Nelder-Mead, Powell) is tied to /repo by replaying generated API scripts through both and comparing evaluation log, population, energies and best after every operation; Powell's and the wrappers' C01 clauses are checked by the oracle on the real runs.",
            level_note='Trusted: Coq kernel+VM; harness (generators, instrumentation of /repo from outside, printers, oracles). User cost/constraints/penalty, DE trial vectors, Nelder-Mead candidate points, argsort permutation and post-decoration populations are oracle inputs (recorded in the correspondence, universally quantified in theorems). Powell: line-search probes and the returned index are oracle inputs. Tight / clip=True range modes: the composite constraints.and_(constraints, bounds) is a recorded table. Not in the machine model (oracle only): ensembles, clip=False ranges. No NaN energies.',
            design_ref="5/C01")

_generate = SC.make_generate(**dict(allow_vector=True))
_oracle = SC.oracle_c01
generate, run_impl, oracle = SC.with_extras(_generate, SC.run_impl, _oracle, {"ensemble": (0.12, SC.gen_ensemble, SC.run_ensemble, SC.oracle_ensemble), "wrapper": (0.08, SC.gen_wrapper, SC.run_wrapper, SC.oracle_wrapper)})
coq_preamble = SC.coq_preamble
coq_terms = SC.make_coq_terms('(mk_mask true true false false false false true false)')
coq_debug = SC.coq_debug
classify = SC.classify
shrink = SC.shrink
