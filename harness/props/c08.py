"""C08 - the optimizers implement their published algorithms.

kinds of cases
  strategy : one call of a real mystic.strategy function on a synthetic solver-like object, random.* scripted
  degen    : a few real generations of DifferentialEvolutionSolver / ...Solver2 (strategy callable and cost wrapped, RNG recorded)
  nm       : mystic fmin(full_output=1, retall=1) with the solver's _Step observed (per-iteration simplices)
  nmapi    : NelderMeadSimplexSolver driven through the class API, Step by Step
  powell   : mystic fmin_powell(full_output=1, retall=1) with `mystic.scipy_optimize.brent` wrapped from outside (recorded line searches)
"""
import math, random as _random, json
from harness.coqio import flit, natlit, lst, opt, blit

ID = "C08"
TITLE = "The optimizers implement their published algorithms"
PROPS_FILE = "Props/Properties_C08.v"
LEVEL = "proof"
SIZES = {"quick": 1200, "thorough": 14000}
PARALLEL = True
SHARD = 40
COQ_TIMEOUT = 900
RULE = ("cases: kind in {strategy (10 strategies x scripted sample/randrange/random draws incl. u == CR ties), degen (1-4 real DE "
        "generations, both solvers, coarse-valued costs so that energy ties occur), nm / nmapi (Nelder-Mead runs: smooth, L1, max, "
        "ill-conditioned, plateau (floor/round/step/const) objectives, dims 1-5, xtol/ftol in {1e-8..1e-1}, maxiter/maxfun early stops), "
        "powell (direction-set runs with recorded Brent answers, dims 1-4)}; non-trivial = at least one mutated component / one "
        "replacement decision / one NM iteration / one Powell sweep; distinct = distinct case JSON")
TRUSTED = ["binary64 arithmetic of Coq's primitive floats (PrimFloat, executed by the VM) equals numpy's/CPython's IEEE arithmetic",
           "the reference transcriptions of scipy.optimize.fmin / fmin_powell in harness/props/c08_ref.py (oracle side)",
           "numpy.argsort's order among tied energies is unspecified: the model accepts any sorted permutation (the observed one)"]
ASSUMPTIONS = ["Brent's line search is an oracle: PowellRef consumes the recorded (alpha_min, fret, calls) of every line search",
               "NaN energies: the DE selection clause is proved and exercised with them (transitivity of binary64 '<' incl. NaN, Common/FloatOrder.v, via the stdlib axiom FloatAxioms.ltb_spec); the Nelder-Mead / Powell order theorems assume a strict weak order (no NaN); objectives are deterministic",
               "random.sample returns distinct elements of its population (hypothesis sample_ok, checked on every recorded call)",
               "degenerate limits (maxiter = 0, maxfun <= 1) are outside the compared domain"]
META = dict(
    technique="Coq proof about reference algorithms (NMref, PowellRef, Strategy) + bit-exact model/implementation correspondence by vm_compute",
    level_text=("Characteristic theorems of the reference algorithms for all objectives/orders/draws; mystic is tied to them by "
                "running fmin, fmin_powell, the class API, every strategy function and whole DE generations against the models "
                "bit-for-bit (PrimFloat) on generated objectives every run (adaptive Nelder-Mead coefficients and objectives that are NaN on part of the domain included).  'Replaced only by a strictly lower trial' is proved for any transitive order and, without hypothesis, for binary64 incl. NaN."),
    level_note=("Known findings: four *Bin strategies implement the exponential loop; Nelder-Mead's zero-coordinate step is one ulp "
                "off scipy's 0.00025; fmin_powell cannot stop after the first sweep.  Brent is an oracle."),
    design_ref="5/C08")

STRATS = ["Best1Exp", "Best1Bin", "Rand1Exp", "RandToBest1Exp", "Best2Exp", "Rand2Exp",
          "Rand1Bin", "RandToBest1Bin", "Best2Bin", "Rand2Bin"]
FAMILY = {"Best1Exp": "Best1", "Best1Bin": "Best1", "Rand1Exp": "Rand1", "Rand1Bin": "Rand1",
          "RandToBest1Exp": "RandToBest1", "RandToBest1Bin": "RandToBest1", "Best2Exp": "Best2", "Best2Bin": "Best2",
          "Rand2Exp": "Rand2", "Rand2Bin": "Rand2"}
NSAMPLE = {"Best1": 2, "Rand1": 3, "RandToBest1": 2, "Best2": 4, "Rand2": 5}


def _fail(clause, site, pattern, detail):
    return dict(clause=clause, site=site, pattern=pattern, detail=detail)


# ------------------------------------------------------------------ objectives (owned by the harness)

def objective(spec):
    fam, c, w, q = spec["fam"], spec["c"], spec["w"], spec.get("q", 1.0)
    if fam in ("quad", "illc"):
        return lambda x: float(sum(wi * (float(xi) - ci) ** 2 for wi, xi, ci in zip(w, x, c)))
    if fam == "rosen":
        def rosen(x):
            x = [float(v) for v in x]
            if len(x) == 1:
                return (x[0] - 1.0) ** 2
            return float(sum(100.0 * (x[i + 1] - x[i] ** 2) ** 2 + (1.0 - x[i]) ** 2 for i in range(len(x) - 1)))
        return rosen
    if fam == "l1":
        return lambda x: float(sum(wi * abs(float(xi) - ci) for wi, xi, ci in zip(w, x, c)))
    if fam == "max":
        return lambda x: float(max(wi * abs(float(xi) - ci) for wi, xi, ci in zip(w, x, c)))
    if fam == "floor":
        return lambda x: float(sum(math.floor(q * abs(float(xi) - ci)) for xi, ci in zip(x, c)))
    if fam == "round":
        return lambda x: float(q * round(sum((float(xi) - ci) ** 2 for xi, ci in zip(x, c)) / q))
    if fam == "step":
        return lambda x: float(sum(1 for xi, ci in zip(x, c) if abs(float(xi) - ci) > q))
    if fam == "const":
        return lambda x: float(q)
    if fam == "nanband":      # not a number on bands of the first coordinate (an objective undefined there), a weighted quadratic elsewhere
        def nb(x):
            t = float(x[0]) - math.floor(float(x[0]))
            if 0.25 < t < 0.75:
                return float("nan")
            return float(sum(wi * (float(xi) - ci) ** 2 for wi, xi, ci in zip(w, x, c)))
        return nb
    if fam in ("rquad", "rqround"):          # non-separable (coupled neighbours); rqround = same, rounded to multiples of q
        def rq(x):
            d = [float(xi) - ci for xi, ci in zip(x, c)]
            v = sum(wi * (d[i] + 0.5 * d[(i + 1) % len(d)]) ** 2 for i, wi in enumerate(w)) + 0.25 * sum(di * di for di in d)
            return float(v) if fam == "rquad" else float(q * round(v / q))
        return rq
    raise ValueError(fam)


SMOOTH = ["quad", "illc", "rosen", "rquad"]
NONSMOOTH = ["l1", "max"]
PLATEAU = ["floor", "round", "step", "const", "rqround"]


def gen_objective(rng, n, fams=None):
    fam = rng.choice(fams or (SMOOTH + NONSMOOTH + PLATEAU + ["floor", "round"]))
    c = [rng.choice([0.0, 1.0, -0.5, round(rng.uniform(-2, 2), 3)]) for _ in range(n)]
    if fam == "illc":
        w = [10.0 ** rng.randint(-3, 3) for _ in range(n)]
    else:
        w = [rng.choice([1.0, 2.0, 0.5, 3.0]) for _ in range(n)]
    q = {"floor": rng.choice([1.0, 2.0, 4.0, 16.0]), "round": rng.choice([1.0, 0.25, 4.0, 0.01]),
         "rqround": rng.choice([1.0, 0.25, 0.5, 0.125]),
         "step": rng.choice([0.5, 0.1, 1.0]), "const": 3.0}.get(fam, 1.0)
    return dict(fam=fam, c=c, w=w, q=q)


class Recorder(object):
    """wraps the harness-owned objective: table x bits -> f bits, in call order"""
    def __init__(self, f):
        self.f, self.calls = f, []

    def __call__(self, x, *a):
        xs = [float(v) for v in (x.tolist() if hasattr(x, "tolist") else x)] if hasattr(x, "__len__") else [float(x)]
        y = self.f(xs)
        self.calls.append((xs, float(y)))
        return y


def _table(calls):
    seen, out = set(), []
    for xs, y in calls:
        k = tuple(float(v).hex() for v in xs)
        if k not in seen:
            seen.add(k)
            out.append((xs, y))
    return out


# ------------------------------------------------------------------ strategies: python statement of the definition (oracle side)

def py_mutant(fam, pop, best, parent, F, rs, i):
    p = lambda k: pop[rs[k]][i]
    if fam == "Best1":
        return best[i] + F * (p(0) - p(1))
    if fam == "Rand1":
        return p(0) + F * (p(1) - p(2))
    if fam == "RandToBest1":
        return parent[i] + (F * (best[i] - parent[i]) + F * (p(0) - p(1)))
    if fam == "Best2":
        return best[i] + F * (p(0) + p(1) - p(2) - p(3))
    if fam == "Rand2":
        return p(0) + F * (p(1) + p(2) - p(3) - p(4))
    raise ValueError(fam)


def py_mask(rule, D, n, CR, us):
    """positions mutated under the published crossover rule, or None if the recorded draws do not suffice"""
    if rule == "Bin":
        if len(us) < D:
            return None
        return [(i == n) or (us[i] < CR) for i in range(D)]
    L = 0
    while L < D and L < len(us) and us[L] < CR:
        L += 1
    if L < D and L >= len(us):
        return None
    run = set((n + k) % D for k in range(L))
    return [i in run for i in range(D)]


def py_trial(name, rule, pop, best, cand, F, CR, rs, n, us):
    fam = FAMILY[name]
    parent = pop[cand]
    D = len(parent)
    mask = py_mask(rule, D, n, CR, us)
    if mask is None:
        return None, None
    return [py_mutant(fam, pop, best, parent, F, rs, i) if mask[i] else parent[i] for i in range(D)], mask


def named_rule(name):
    return "Bin" if name.endswith("Bin") else "Exp"


def check_trial(name, pop, best, cand, F, CR, rs, n, us, trial, where):
    """the property clause for one trial vector; returns failures"""
    out = []
    NP = len(pop)
    fam = FAMILY[name]
    if len(rs) != NSAMPLE[fam] or len(set(rs)) != len(rs) or any(r == cand or not (0 <= r < NP) for r in rs):
        out.append(_fail("members_distinct", "strategy.get_random_candidates", "bad-sample", dict(rs=rs, cand=cand, where=where)))
        return out
    exp, mask = py_trial(name, named_rule(name), pop, best, cand, F, CR, rs, n, us)
    same = lambda a, b: a is not None and len(a) == len(b) and all(x == y or (x != x and y != y) for x, y in zip(a, b))
    if same(exp, trial):
        return out
    if named_rule(name) == "Bin":
        alt, _ = py_trial(name, "Exp", pop, best, cand, F, CR, rs, n, us)
        if same(alt, trial):
            out.append(_fail("crossover_rule", "strategy." + name, "bin-uses-exponential-crossover",
                             dict(where=where, n=n, us=us[:8], CR=CR, trial=trial, binomial_would_give=exp)))
            return out
    out.append(_fail("trial_shape", "strategy." + name, "wrong-trial", dict(where=where, n=n, us=us[:8], CR=CR, rs=rs, trial=trial, expected=exp)))
    return out


class _FakeSolver(object):
    pass


class _ScriptedRandom(object):
    """replaces random.sample/randrange/random while one strategy function runs"""
    def __init__(self, pos=None, n=None, us=None, real=None):
        self.pos, self.n, self.us, self.real = pos, n, list(us or []), real
        self.k = 0
        self.log = dict(sample_pool=None, sample_k=None, rs=None, n=None, n_arg=None, us=[])

    def sample(self, population, k, **kw):
        population = list(population)
        self.log["sample_pool"], self.log["sample_k"] = population, k
        if self.real is not None:
            rs = self.real["sample"](population, k)
        else:
            rs = [population[j] for j in self.pos[:k]]
        self.log["rs"] = [int(r) for r in rs]
        return rs

    def randrange(self, *a):
        self.log["n_arg"] = [int(v) for v in a]
        n = self.real["randrange"](*a) if self.real is not None else self.n
        self.log["n"] = int(n)
        return n

    def random(self):
        if self.real is not None:
            u = self.real["random"]()
        else:
            u = self.us[self.k] if self.k < len(self.us) else 2.0   # past the script: never mutate
            self.k += 1
        self.log["us"].append(float(u))
        return u


class _patched_random(object):
    def __init__(self, scripted):
        self.s = scripted

    def __enter__(self):
        import random
        self.old = (random.sample, random.randrange, random.random)
        random.sample, random.randrange, random.random = self.s.sample, self.s.randrange, self.s.random
        return self.s

    def __exit__(self, *a):
        import random
        random.sample, random.randrange, random.random = self.old


def _run_strategy(case):
    import numpy
    from mystic import strategy as S
    inst = _FakeSolver()
    pop = [list(r) for r in case["pop"]]
    inst.nPop, inst.nDim = len(pop), len(pop[0])
    inst.population = [list(r) for r in pop]
    inst.bestSolution = numpy.array(case["best"], dtype=float)
    inst.scale, inst.probability = case["F"], case["CR"]
    inst._map_solver = bool(case["map_solver"])
    junk = [123.25] * inst.nDim
    inst.trialSolution = [list(junk) for _ in pop] if inst._map_solver else list(junk)
    sr = _ScriptedRandom(case["pos"], case["n"], case["us"])
    with _patched_random(sr):
        try:
            getattr(S, case["name"])(inst, case["cand"])
            err = None
        except Exception as e:
            err = type(e).__name__
    tr = inst.trialSolution[case["cand"]] if inst._map_solver else inst.trialSolution
    return dict(error=err, trial=[float(v) for v in tr], log=sr.log,
                pop_after=[[float(v) for v in r] for r in inst.population], best_after=[float(v) for v in inst.bestSolution])


def _oracle_strategy(case, obs):
    out = []
    name, cand, pop = case["name"], case["cand"], case["pop"]
    NP = len(pop)
    if obs["error"]:
        return [_fail("trial_shape", "strategy." + name, "exception-" + obs["error"], obs)]
    lg = obs["log"]
    pool = list(range(cand)) + list(range(cand + 1, NP))
    if lg["sample_pool"] != pool or lg["sample_k"] != NSAMPLE[FAMILY[name]]:
        out.append(_fail("members_distinct", "strategy.get_random_candidates", "wrong-pool", lg))
    if lg["n_arg"] != [len(pop[0])]:
        out.append(_fail("crossover_rule", "strategy." + name, "wrong-randrange", lg))
    if obs["pop_after"] != pop or obs["best_after"] != case["best"]:
        out.append(_fail("trial_shape", "strategy." + name, "population-modified", None))
    rs = lg["rs"] or []
    out += check_trial(name, pop, case["best"], cand, case["F"], case["CR"], rs, lg["n"], lg["us"] + [2.0] * (len(pop[0]) + 1),
                       obs["trial"], "synthetic")
    return out


def _gen_strategy(rng):
    name = rng.choice(STRATS)
    fam = FAMILY[name]
    D = rng.choice([1, 1, 2, 3, 4, 5, 6])
    NP = max(NSAMPLE[fam] + 1, rng.choice([4, 5, 6, 8]))
    grid = rng.random() < 0.5
    val = (lambda: rng.randint(-16, 16) / 4.0) if grid else (lambda: rng.uniform(-5, 5))
    pop = [[val() for _ in range(D)] for _ in range(NP)]
    if rng.random() < 0.2:   # duplicate members: distinct indices need not mean distinct vectors
        pop[rng.randrange(NP)] = list(pop[rng.randrange(NP)])
    best = list(pop[rng.randrange(NP)]) if rng.random() < 0.7 else [val() for _ in range(D)]
    cand = rng.randrange(NP)
    pos = rng.sample(range(NP - 1), NSAMPLE[fam])
    CR = rng.choice([0.9, 0.5, 0.1, 0.0, 1.0, 0.75])
    F = rng.choice([0.8, 0.5, 1.0, 0.3, 0.0, rng.uniform(0, 2)])
    n = rng.randrange(D)

    def u():
        t = rng.random()
        if t < 0.2:
            return CR                       # tie: u == CR is NOT < CR
        if t < 0.6:
            return rng.random() * CR if CR > 0 else 0.0
        return min(0.999, CR + (1 - CR) * rng.random()) if CR < 1 else rng.random()
    k = rng.choice([D + 2, D + 2, rng.randint(0, D + 1)])
    us = [u() for _ in range(D + 2)]
    if rng.random() < 0.35:    # long runs: wrap-around and the i == D stop
        for j in range(rng.randint(0, D + 1)):
            us[j] = 0.0 if CR > 0 else us[j]
    return dict(kind="strategy", name=name, pop=pop, best=best, cand=cand, pos=pos, F=F, CR=CR, n=n, us=us,
                map_solver=rng.random() < 0.4)


# ------------------------------------------------------------------ whole DE generations

def _run_degen(case):
    import random, numpy
    from mystic import strategy as S
    from mystic.differential_evolution import DifferentialEvolutionSolver, DifferentialEvolutionSolver2
    from mystic.termination import VTR
    name, NP, D = case["name"], case["NP"], case["D"]
    cls = DifferentialEvolutionSolver if case["solver"] == 1 else DifferentialEvolutionSolver2
    solver = cls(D, NP)
    for i in range(solver.nPop):
        solver.population[i][:] = list(case["pop"][i])
    rec = Recorder(objective(case["obj"]))
    real = getattr(S, name)
    random.seed(case["seed"])
    realfns = dict(sample=random.sample, randrange=random.randrange, random=random.random)
    calls = []

    def wrapped(inst, candidate):
        if int(candidate) == 0:                    # (Solve-driven runs) state between generations
            gen_snaps.append(dict(pop=[[float(v) for v in r] for r in inst.population], popE=[float(e) for e in inst.popEnergy],
                                  best=[float(v) for v in inst.bestSolution], bestE=float(inst.bestEnergy), ncost=len(rec.calls),
                                  ncalls=len(calls)))
        before = dict(cand=int(candidate), pop=[[float(v) for v in r] for r in inst.population],
                      best=[float(v) for v in inst.bestSolution], F=float(inst.scale), CR=float(inst.probability))
        sr = _ScriptedRandom(real=realfns)
        with _patched_random(sr):
            real(inst, candidate)
        tr = inst.trialSolution[candidate] if inst._map_solver else inst.trialSolution
        before.update(trial=[float(v) for v in tr], rs=sr.log["rs"], n=sr.log["n"], us=sr.log["us"], ncost=len(rec.calls))
        calls.append(before)
    wrapped.__name__ = name

    def snap():
        return dict(pop=[[float(v) for v in r] for r in solver.population], popE=[float(e) for e in solver.popEnergy],
                    best=[float(v) for v in solver.bestSolution], bestE=float(solver.bestEnergy), ncost=len(rec.calls),
                    ncalls=len(calls))
    solver.SetTermination(VTR(-1e300))
    solver.SetEvaluationLimits(10 ** 6, 10 ** 9)
    gen_snaps = []
    # F, CR and the strategy are REQUESTED as keywords of Step / Solve (never by poking solver.scale / solver.probability)
    kw = dict(strategy=wrapped, CrossProbability=case["CR"], ScalingFactor=case["F"], disp=False)
    if case.get("drive", "step") == "step":
        solver.Step(rec, **kw)                       # generation 0: evaluate the initial population
        snaps = [snap()]
        for g in range(case["gens"]):
            if case.get("kw_once") and g > 0:
                solver.Step(strategy=wrapped, disp=False)   # F / CR are sticky: requested once, they stay in force
            else:
                solver.Step(**kw)
            snaps.append(snap())
    else:
        solver.SetEvaluationLimits(case["gens"], 10 ** 9)
        solver.Solve(rec, **kw)
        snaps = list(gen_snaps) + [snap()]
    return dict(snaps=snaps, calls=calls, cost=[[xs, y] for xs, y in rec.calls], nPop=int(solver.nPop))


def _oracle_degen(case, obs):
    out = []
    name = case["name"]
    site = "differential_evolution.DifferentialEvolutionSolver%s._Step" % ("" if case["solver"] == 1 else "2")
    snaps, calls, cost = obs["snaps"], obs["calls"], obs["cost"]
    NP = obs["nPop"]
    for g in range(1, len(snaps)):
        a, b = snaps[g - 1], snaps[g]
        cs = calls[a["ncalls"]:b["ncalls"]]
        if [c["cand"] for c in cs] != list(range(NP)):
            out.append(_fail("generation_loop", site, "candidates-not-0..NP-1", [c["cand"] for c in cs])); break
        ev = cost[a["ncost"]:b["ncost"]]
        if len(ev) != NP:
            out.append(_fail("generation_loop", site, "evaluations-per-generation", len(ev))); break
        bestE = a["bestE"]
        for c in range(NP):
            call = cs[c]
            out += check_trial(name, call["pop"], call["best"], c, case["F"], case["CR"], call["rs"] or [], call["n"],
                               call["us"] + [2.0] * (case["D"] + 1), call["trial"], "generation %d candidate %d" % (g, c))
            if call["F"] != case["F"] or call["CR"] != case["CR"]:
                out.append(_fail("trial_shape", site, "requested-F-or-CR-not-in-force",
                                 dict(requested=[case["F"], case["CR"]], in_force=[call["F"], call["CR"]], g=g, c=c)))
            x, e = ev[c]
            if x != call["trial"]:
                out.append(_fail("generation_loop", site, "evaluated-point-is-not-the-trial", dict(g=g, c=c)))
            old, oldE, new, newE = a["pop"][c], a["popE"][c], b["pop"][c], b["popE"][c]
            if e < oldE:
                if new != x or newE != e:
                    out.append(_fail("replace_only_if_strictly_lower", site, "lower-trial-not-taken", dict(g=g, c=c, e=e, oldE=oldE)))
                bestE = min(bestE, e)
            else:
                if new != old or newE != oldE:
                    out.append(_fail("replace_only_if_strictly_lower", site, "replaced-without-strict-decrease",
                                     dict(g=g, c=c, trialE=e, oldE=oldE, newE=newE)))
        if b["bestE"] != bestE:
            out.append(_fail("replace_only_if_strictly_lower", site, "best-energy", dict(g=g, got=b["bestE"], want=bestE)))
        if b["bestE"] < a["bestE"]:
            if not any(b["best"] == x and e == b["bestE"] for x, e in ev):
                out.append(_fail("replace_only_if_strictly_lower", site, "best-solution-not-a-trial", dict(g=g)))
        elif b["best"] != a["best"]:
            out.append(_fail("replace_only_if_strictly_lower", site, "best-replaced-without-strict-decrease", dict(g=g)))
    return out


def _gen_degen(rng):
    name = rng.choice(STRATS)
    D = rng.choice([1, 2, 3, 4])
    NP = max(NSAMPLE[FAMILY[name]] + 1, rng.choice([4, 5, 6, 8]), D)
    obj = gen_objective(rng, D, fams=["floor", "floor", "round", "step", "quad", "l1", "max", "const"])
    grid = rng.random() < 0.6
    val = (lambda: rng.randint(-12, 12) / 4.0) if grid else (lambda: rng.uniform(-3, 3))
    pop = [[val() for _ in range(D)] for _ in range(NP)]
    if rng.random() < 0.15:
        # trial energies that are not numbers: such a trial is not "strictly lower" and must never replace a member (members start where the objective is defined)
        obj = gen_objective(rng, D, fams=["nanband"])
        for m in pop:
            m[0] = float(math.floor(m[0]))
    return dict(kind="degen", solver=rng.choice([1, 2]), name=name, NP=NP, D=D, pop=pop, obj=obj, seed=rng.randrange(10 ** 6),
                F=rng.choice([0.8, 0.5, 1.0, 0.25, 0.0, 0.0, 1.0]), CR=rng.choice([0.9, 0.5, 0.2, 1.0, 0.0, 0.0, 1.0]),
                gens=rng.choice([1, 2, 3, 4]), drive=rng.choice(["step", "step", "solve"]), kw_once=rng.random() < 0.3)



# ------------------------------------------------------------------ Nelder-Mead

MYSTIC_ZDELT = (0.05 ** 2) * 0.1      # what mystic's _setSimplexWithinRangeBoundary uses; scipy's zdelt is 0.00025 (one ulp less)
NM_SITE = "scipy_optimize.NelderMeadSimplexSolver"


def _nm_limits(case):
    n = len(case["x0"])
    mi = case["maxiter"] if case["maxiter"] is not None else 200 * n
    mf = case["maxfun"] if case["maxfun"] is not None else 200 * n
    return mi, mf


def _run_nm(case):
    import numpy
    import mystic.scipy_optimize as so
    rec = Recorder(objective(case["obj"]))
    log = []
    x0 = list(case["x0"])
    if case["kind"] == "nm":
        cls = so.NelderMeadSimplexSolver
        orig_step = cls._Step

        def observed_step(self, *a, **k):       # outside-in observation of the per-iteration simplex
            r = orig_step(self, *a, **k)
            log.append(([[float(v) for v in row] for row in self.population], [float(e) for e in self.popEnergy]))
            return r
        cls._Step = observed_step
        try:
            res = so.fmin(rec, x0, xtol=case["xtol"], ftol=case["ftol"], maxiter=case["maxiter"], maxfun=case["maxfun"],
                          full_output=1, retall=1, disp=0)
        finally:
            cls._Step = orig_step
        x, fval, it, fc, warn, allvecs = res
        allv = [[float(v) for v in numpy.atleast_1d(a)] for a in allvecs]
    else:
        from mystic.termination import CandidateRelativeTolerance as CRT
        solver = so.NelderMeadSimplexSolver(len(x0))
        solver.SetInitialPoints(x0)
        solver.SetEvaluationLimits(case["maxiter"], case["maxfun"])
        solver.SetTermination(CRT(case["xtol"], case["ftol"]))
        solver.SetObjective(rec)
        if case.get("adaptive"):
            solver.adaptive = True
        guard = 0
        while True:
            msg = solver.Step()
            log.append(([[float(v) for v in row] for row in solver.population], [float(e) for e in solver.popEnergy]))
            guard += 1
            if msg or guard > 20000:
                break
        x, fval, it, fc = solver.bestSolution, solver.bestEnergy, solver.generations, solver.evaluations
        warn = 1 if fc >= solver._maxfun else 2 if it >= solver._maxiter else 0
        allv = None
    return dict(x=[float(v) for v in numpy.atleast_1d(x)], fval=float(fval), iter=int(it), funcalls=int(fc), warnflag=int(warn),
                allvecs=allv, sims=[[p, e] for p, e in log[1:]], first=[log[0][0][0], log[0][1][0]] if log else None,
                cost=[[xs, y] for xs, y in rec.calls])


def _close(a, b, tol=1e-6):
    return all(abs(x - y) <= tol * (1.0 + abs(y)) for x, y in zip(a, b)) and len(a) == len(b)


def _oracle_nm(case, obs):
    from harness.props.c08_ref import ref_fmin
    out = []
    f = objective(case["obj"])
    x0 = case["x0"]
    kw = dict(xtol=case["xtol"], ftol=case["ftol"], maxiter=case["maxiter"], maxfun=case["maxfun"], adaptive=bool(case.get("adaptive")))
    r = ref_fmin(f, x0, **kw)
    got = (obs["iter"], obs["funcalls"], obs["warnflag"])
    want = (r["iter"], r["funcalls"], r["warnflag"])
    rx = [float(v) for v in r["x"]]
    site = NM_SITE + ("._Step" if case["kind"] == "nmapi" else ".fmin")
    # "same minimizer and minimum to rounding, same iteration and evaluation counts"
    if got != want or not _close(obs["x"], rx) or not _close([obs["fval"]], [r["fval"]]):
        detail = dict(x0=x0, got=got, reference=want, x=obs["x"], ref_x=rx, fval=obs["fval"], ref_f=r["fval"])
        r2 = ref_fmin(f, x0, zdelt=MYSTIC_ZDELT, **kw) if any(v == 0.0 for v in x0) else None
        if r2 is not None and got == (r2["iter"], r2["funcalls"], r2["warnflag"]) and obs["x"] == [float(v) for v in r2["x"]] \
           and obs["fval"] == r2["fval"]:
            # explained completely by the one-ulp zero-coordinate step of the initial simplex
            out.append(_fail("nm_reproduces_reference", NM_SITE + "._setSimplexWithinRangeBoundary", "zdelt-one-ulp-off-reference", detail))
        else:
            out.append(_fail("nm_reproduces_reference", site, "differs-from-reference", detail))
    if obs["funcalls"] != len(obs["cost"]):
        out.append(_fail("nm_counts", site, "funcalls-not-number-of-objective-calls", [obs["funcalls"], len(obs["cost"])]))
    if obs["allvecs"] is not None and len(obs["allvecs"]) != obs["iter"] + 1:
        out.append(_fail("nm_counts", site, "iter-not-number-of-recorded-iterations", [obs["iter"], len(obs["allvecs"])]))
    return out


X0_VALUES = [0.0, 1.0, -1.0, 0.5, 2.0, -1.5]


def _gen_nm(rng, tier, kind=None):
    from harness.props.c08_ref import ref_fmin
    n = rng.choice([1, 2, 2, 3, 3, 4, 5])
    obj = gen_objective(rng, n)
    zero_ok = rng.random() < 0.25
    x0 = []
    for _ in range(n):
        t = rng.random()
        v = rng.choice(X0_VALUES) if t < 0.5 else round(rng.uniform(-3, 3), 2) if t < 0.8 else rng.uniform(-3, 3)
        if v == 0.0 and not zero_ok:
            v = 0.25
        if rng.random() < 0.06:
            v = rng.choice([3e-9, -1e-12, 5e-324, 1e-8])     # tiny but non-zero: the simplex offset is still the relative one (5%)
        x0.append(v)
    kind = kind or rng.choice(["nm", "nm", "nmapi"])
    xtol = rng.choice([1e-4, 1e-4, 1e-2, 1e-8, 1e-1, 1.0])
    ftol = rng.choice([1e-4, 1e-4, 1e-2, 1e-8, 1e-1, 1.0])
    u = rng.random()
    if u < 0.04:
        # the DEFAULT limits (200*N): never converge, leave one limit to its default
        n = rng.choice([1, 1, 1, 2])
        obj = gen_objective(rng, n, fams=["rosen", "quad", "l1", "rquad"])
        x0 = [rng.choice([1.5, -1.0, 2.0, 0.5]) for _ in range(n)]
        mi, mf = rng.choice([(None, 4000), (4000, None), (None, None)])
        return dict(kind=kind, obj=obj, x0=x0, xtol=1e-300, ftol=1e-300, maxiter=mi, maxfun=mf, stream="default-limits")
    if u > 0.95:
        # zero-heavy starts at a kink of the objective: where the one-ulp zero-coordinate step of the initial simplex can matter
        n = rng.choice([1, 2, 2, 3])
        obj = gen_objective(rng, n, fams=["max", "max", "l1", "floor", "step"])
        obj["c"] = [rng.choice([0.0, 0.0, 1.0, -0.5]) for _ in range(n)]
        return dict(kind=kind, obj=obj, x0=[rng.choice([0.0, 0.0, 0.0, 1.0]) for _ in range(n)], xtol=xtol, ftol=ftol,
                    maxiter=None, maxfun=None, stream="zero-start")
    full = rng.random() < (0.12 if tier == "quick" else 0.3) and n <= 3
    if full:
        mi, mf = None, None
    else:
        mi = rng.choice([None, 1, 2, 3, 5, 12, 30, 60])
        mf = rng.choice([None, 2, n + 1, n + 2, n + 3, 7, 20, 50, 100])
        if mi is None and mf is None:
            mi = rng.choice([40, 80])
    case = dict(kind=kind, obj=obj, x0=x0, xtol=xtol, ftol=ftol, maxiter=mi, maxfun=mf)
    if kind == "nmapi" and rng.random() < 0.4:      # (the fmin wrapper has no such option)
        case["adaptive"] = True      # dimension-dependent coefficients (Gao & Han): chi = 1+2/n, psi = 3/4-1/(2n), sigma = 1-1/n
    if u < 0.26:
        # boundary of the stop rule: a tolerance EXACTLY equal to the simplex diameter / energy spread reached at some iteration
        r = ref_fmin(objective(obj), x0, xtol=1e-300, ftol=1e-300, maxiter=rng.choice([3, 6, 12, 25]), maxfun=10 ** 6, zdelt=MYSTIC_ZDELT,
                     adaptive=bool(case.get("adaptive")))
        sim, fsim = r["sims"][rng.randrange(len(r["sims"]))]
        dx = float(max(abs(float(a) - float(b)) for row in sim[1:] for a, b in zip(row, sim[0])))
        df = float(max(abs(float(fsim[0]) - float(e)) for e in fsim[1:]))
        which = rng.choice(["x", "f", "both"])
        case.update(xtol=dx if which in ("x", "both") and dx > 0 else 1e6, ftol=df if which in ("f", "both") else 1e6,
                    maxiter=None if n <= 3 else 60, maxfun=None if n <= 3 else 300, stream="tolerance-tie")
    return case


def _sim_lit(p, e):
    return "(%s : list (list F * F))" % lst(["(%s, %s)" % (_fl(x), flit(y)) for x, y in zip(p, e)])


def _terms_nm(case, obs):
    mi, mf = _nm_limits(case)
    if not obs["sims"]:
        return ["false"]
    tbl = _tbl(_table([(x, y) for x, y in obs["cost"]]))
    sims = "(%s : list (list (list F * F)))" % lst([_sim_lit(p, e) for p, e in obs["sims"]])
    chi, psi, sigma = 2.0, 0.5, 0.5
    if case.get("adaptive"):
        dim = float(len(case["x0"]))
        chi, psi, sigma = 1 + 2 / dim, 0.75 - 1 / (2 * dim), 1 - 1 / dim
    P = "(mkP NumF %s %s 1%%float %s %s %s %s %s)" % (flit(0.05), flit(MYSTIC_ZDELT), flit(chi), flit(psi), flit(sigma), flit(case["xtol"]), flit(case["ftol"]))
    run = "(nm_run NumF %s (lookup %s) (guided NumF obs) %s %s %s)" % (P, tbl, _fl(case["x0"]), natlit(mi), natlit(mf))
    _DEBUG[:] = ["let obs := %s in option_map (fun r => (r_x NumF r, r_f NumF r, r_iter NumF r, r_calls NumF r, r_warn NumF r, "
                 "length (r_trace NumF r))) %s" % (sims, run)]
    return ["nm_ok (let obs := %s in (%s, obs)) %s %s %s %s %s" % (
        sims, run, _fl(obs["x"]), flit(obs["fval"]), natlit(obs["iter"]), natlit(obs["funcalls"]), natlit(obs["warnflag"]))]


# ------------------------------------------------------------------ Powell

PW_SITE = "scipy_optimize.fmin_powell"


def _pw_limits(case):
    n = len(case["x0"])
    mi = case["maxiter"] if case["maxiter"] is not None else 1000 * n
    mf = case["maxfun"] if case["maxfun"] is not None else 1000 * n
    return mi, mf


def _run_powell(case):
    import numpy
    import mystic.scipy_optimize as so
    rec = Recorder(objective(case["obj"]))
    x0 = list(case["x0"])
    ls = []
    orig = so.brent

    def recording_brent(func, *a, **k):          # Brent's line search is the oracle: record what it answered
        n0 = len(rec.calls)
        r = orig(func, *a, **k)
        alpha, fret = float(r[0]), float(r[1])
        vals = [y for _, y in rec.calls[n0:]]
        ls.append(dict(alpha=alpha, fret=fret, calls=len(rec.calls) - n0, f0=(vals[0] if vals else None), fmin=(min(vals) if vals else None)))
        return r
    so.brent = recording_brent
    try:
        res = so.fmin_powell(rec, x0, xtol=case["xtol"], ftol=case["ftol"], maxiter=case["maxiter"], maxfun=case["maxfun"],
                             full_output=1, retall=1, disp=0, direc=(numpy.array(case["direc"], dtype=float) if case.get("direc") else None))
    finally:
        so.brent = orig
    x, fval, it, fc, warn, direc, allvecs = res
    return dict(x=[float(v) for v in numpy.atleast_1d(x)], fval=float(fval), iter=int(it), funcalls=int(fc), warnflag=int(warn),
                direc=[[float(v) for v in r] for r in numpy.asarray(direc)],
                allvecs=[[float(v) for v in numpy.atleast_1d(a)] for a in allvecs],
                ls=ls, cost=[[xs, y] for xs, y in rec.calls])


def _oracle_powell(case, obs):
    import numpy
    from harness.props.c08_ref import ref_fmin_powell
    import mystic._scipy060optimize as bundled       # "given the same Brent line search"
    out = []
    f = objective(case["obj"])
    kw = dict(xtol=case["xtol"], ftol=case["ftol"], maxiter=case["maxiter"], maxfun=case["maxfun"], direc=case.get("direc"))

    def same(r, exact=False):
        rx, rd = [float(v) for v in r["x"]], [float(v) for row in r["direc"] for v in row]
        od = [v for row in obs["direc"] for v in row]
        if (obs["iter"], obs["funcalls"], obs["warnflag"]) != (r["iter"], r["funcalls"], r["warnflag"]):
            return False
        if exact:
            return obs["x"] == rx and obs["fval"] == r["fval"] and od == rd
        return _close(obs["x"], rx) and _close([obs["fval"]], [r["fval"]]) and _close(od, rd)
    r = ref_fmin_powell(f, case["x0"], bundled.brent, **kw)
    if not same(r):
        r2 = ref_fmin_powell(f, case["x0"], bundled.brent, first_test=False, **kw)
        detail = dict(got=[obs["iter"], obs["funcalls"], obs["warnflag"], obs["fval"]], reference=[r["iter"], r["funcalls"], r["warnflag"], r["fval"]],
                      x=obs["x"], ref_x=[float(v) for v in r["x"]])
        if r["iter"] == 1 and r["warnflag"] == 0 and same(r2, exact=True):
            out.append(_fail("powell_reproduces_reference", PW_SITE, "no-stop-test-after-first-sweep", detail))
        else:
            out.append(_fail("powell_reproduces_reference", PW_SITE, "differs-from-reference", detail))
    if obs["funcalls"] != len(obs["cost"]):
        out.append(_fail("powell_counts", PW_SITE, "funcalls-not-number-of-objective-calls", [obs["funcalls"], len(obs["cost"])]))
    if len(obs["allvecs"]) != obs["iter"] + 1:
        out.append(_fail("powell_counts", PW_SITE, "iter-not-number-of-recorded-iterations", [obs["iter"], len(obs["allvecs"])]))
    return out


def _gen_powell(rng, tier):
    from harness.props.c08_ref import ref_fmin_powell
    n = rng.choice([1, 2, 2, 3, 3, 4])
    obj = gen_objective(rng, n)
    x0 = []
    for _ in range(n):
        t = rng.random()
        x0.append(rng.choice(X0_VALUES + [0.0]) if t < 0.5 else round(rng.uniform(-3, 3), 2) if t < 0.8 else rng.uniform(-3, 3))
    if rng.random() < 0.15:
        x0 = [float(c) for c in obj["c"]]          # start at the minimiser: the first sweep gains nothing
    mi = rng.choice([None, None, 1, 2, 3, 6])
    mf = rng.choice([None, None, 2, 15, 40, 120])
    direc = None
    if rng.random() < 0.25:
        direc = [[float(rng.choice([1, 0, 0, -1, 2, 0.5])) if i != j else float(rng.choice([1, 1, 2, -1])) for j in range(n)] for i in range(n)]
    case = dict(kind="powell", obj=obj, x0=x0, xtol=rng.choice([1e-4, 1e-2, 1e-1]), ftol=rng.choice([1e-4, 1e-4, 1e-2, 1e-8, 1e-1]),
                maxiter=mi, maxfun=mf, direc=direc)
    u = rng.random()
    if u < 0.3:
        # coarse non-separable valley from grid points: equal decreases along two directions AND a direction replacement
        n = 2 if rng.random() < 0.7 else rng.choice([3, 4])
        obj = gen_objective(rng, n, fams=["rqround"])
        obj["q"] = rng.choice([0.5, 0.5, 1.0, 0.125, 2.0])
        case.update(obj=obj, x0=[rng.choice([0.0, 1.0, -1.0, 2.0, -2.0, 3.0, 1.5]) for _ in range(n)], direc=None,
                    maxiter=None, maxfun=None, ftol=rng.choice([1e-4, 1e-8]), stream="bigind-tie")
    elif u < 0.5:
        # boundary of the stop rule: ftol with 2(fx-fval) == ftol(|fx|+|fval|)+1e-20 EXACTLY at some sweep >= 2
        import mystic._scipy060optimize as bundled
        obj = gen_objective(rng, n, fams=["floor", "step", "rqround", "round"])
        f = objective(obj)
        vals = []
        class _Stop(Exception):
            pass
        r = ref_fmin_powell(f, x0, bundled.brent, xtol=case["xtol"], ftol=1e-300, maxiter=6, maxfun=3000, direc=direc, first_test=False)
        prev = float(f(x0))
        cands = []
        hist = [prev] + [v for _, v in r["hist"]]
        # fx of sweep k is the value after iteration k-1's extrapolation phase; approximate by the previous sweep value and verify below
        for k in range(2, len(hist)):
            fx, fv = hist[k - 1], hist[k]
            if fx > fv and abs(fx) + abs(fv) > 0:
                t = 2.0 * (fx - fv) / (abs(fx) + abs(fv))
                if t * (abs(fx) + abs(fv)) + 1e-20 == 2.0 * (fx - fv):
                    cands.append(t)
        if cands:
            case.update(obj=obj, ftol=rng.choice(cands), maxiter=None, maxfun=None, stream="ftol-tie")
        else:
            case.update(obj=obj, ftol=rng.choice([1.0, 0.5, 0.4]), stream="ftol-coarse")
    return case


def _terms_powell(case, obs):
    mi, mf = _pw_limits(case)
    n = len(case["x0"])
    tbl = _tbl(_table([(x, y) for x, y in obs["cost"]]))
    direc = case.get("direc") or [[1.0 if i == j else 0.0 for j in range(n)] for i in range(n)]
    ls = "(%s : list (lsrec NumF))" % lst(["(%s, %s, %s)" % (flit(r["alpha"]), flit(r["fret"]), natlit(r["calls"])) for r in obs["ls"]])
    run = "(powell_run NumF (lookup %s) %s %s false %s %s %s %s %s)" % (
        tbl, flit(case["ftol"]), flit(1e-20), _fl(case["x0"]), _fll(direc), natlit(mi), natlit(mf), ls)
    _DEBUG[:] = ["option_map (fun r => (pr_x NumF r, pr_f NumF r, pr_iter NumF r, pr_calls NumF r, pr_warn NumF r, pr_direc NumF r, "
                 "pr_unused NumF r)) " + run]
    return ["pw_ok %s %s %s %s %s %s %s %s" % (
        run, _fl(obs["x"]), flit(obs["fval"]), natlit(obs["iter"]), natlit(obs["funcalls"]), natlit(obs["warnflag"]),
        _fll(obs["direc"]), _fll(obs["allvecs"]))]

# ------------------------------------------------------------------ module interface

def _gen_smallpop(rng):
    """a population too small for the strategy to pick DISTINCT other members: the solver has to refuse, not fabricate a trial"""
    name = rng.choice(["Best2Exp", "Best2Bin", "Rand2Exp", "Rand2Bin"])
    NP = rng.choice([4] if FAMILY[name] == "Best2" else [4, 5])
    D = rng.choice([1, 2, 3])
    return dict(kind="smallpop", solver=rng.choice([1, 2]), name=name, NP=NP, D=D, pop=[[rng.randint(-8, 8) / 4.0 for _ in range(D)] for _ in range(NP)],
                obj=gen_objective(rng, D, fams=["quad", "l1"]), seed=rng.randrange(10 ** 6))


def _run_smallpop(case):
    import random
    from mystic.differential_evolution import DifferentialEvolutionSolver, DifferentialEvolutionSolver2
    from mystic.termination import VTR
    cls = DifferentialEvolutionSolver if case["solver"] == 1 else DifferentialEvolutionSolver2
    solver = cls(case["D"], case["NP"])
    for i in range(solver.nPop):
        solver.population[i][:] = list(case["pop"][i])
    random.seed(case["seed"])
    solver.SetTermination(VTR(-1e300)); solver.SetEvaluationLimits(10 ** 6, 10 ** 9)
    f = objective(case["obj"])
    out = dict(nPop=int(solver.nPop))
    try:
        from mystic import strategy as S
        strat = getattr(S, case["name"])
        solver.Step(f, strategy=strat, disp=False)      # generation 0
        before = [[float(v) for v in r] for r in solver.population]
        solver.Step(strategy=strat, disp=False)
        out["stepped"] = True
        out["changed"] = [[float(v) for v in r] for r in solver.population] != before
    except ValueError as e:
        out["raised"] = "ValueError"
    return out


def _oracle_smallpop(case, obs):
    need = NSAMPLE[FAMILY[case["name"]]]
    if obs.get("nPop", 0) - 1 >= need:
        return []           # the solver enlarged the population itself: distinct members exist
    if "raised" in obs:
        return []
    return [_fail("distinct_members", "strategy." + case["name"], "trial-built-without-enough-distinct-members",
                  dict(nPop=obs.get("nPop"), needs=need, obs=obs))]


def generate(rng, n, tier):
    kinds = ["strategy"] * 7 + ["degen"] * 3 + ["nm"] * 6 + ["powell"] * 6
    for i in range(n):
        if rng.random() < 0.02:
            yield _gen_smallpop(rng); continue
        k = rng.choice(kinds)
        if k == "strategy":
            yield _gen_strategy(rng)
        elif k == "degen":
            yield _gen_degen(rng)
        elif k == "nm":
            yield _gen_nm(rng, tier)
        elif k == "powell":
            yield _gen_powell(rng, tier)


def run_impl(case):
    k = case["kind"]
    if k == "strategy":
        return _run_strategy(case)
    if k == "degen":
        return _run_degen(case)
    if k == "smallpop":
        return _run_smallpop(case)
    if k in ("nm", "nmapi"):
        return _run_nm(case)
    if k == "powell":
        return _run_powell(case)
    raise ValueError(k)


def oracle(case, obs):
    if "__exception__" in obs:
        return [_fail("no-crash", "harness." + case["kind"], obs["__exception__"], obs.get("__tb__"))]
    k = case["kind"]
    if k == "strategy":
        return _oracle_strategy(case, obs)
    if k == "degen":
        return _oracle_degen(case, obs)
    if k == "smallpop":
        return _oracle_smallpop(case, obs)
    if k in ("nm", "nmapi"):
        return _oracle_nm(case, obs)
    if k == "powell":
        return _oracle_powell(case, obs)
    return []


# ------------------------------------------------------------------ Coq side

def coq_preamble():
    return r"""
From Coq Require Import PrimFloat.
From MV Require Import Common.Num Core.Strategy Core.NMref Core.PowellRef.
Definition F := PrimFloat.float.
Definition vec_eq (a b : list F) : bool := flist_eq a b.
Definition vecs_eq (a b : list (list F)) : bool :=
  (Nat.eqb (length a) (length b) && forallb (fun p => vec_eq (fst p) (snd p)) (combine a b))%bool.
Definition ovec_eq (a : option (list F)) (b : list F) : bool := match a with Some v => vec_eq v b | None => false end.
Definition lookup (tbl : list (list F * F)) (x : list F) : option F :=
  match find (fun p => vec_eq (fst p) x) tbl with Some p => Some (snd p) | None => None end.
Definition mem_eq (a b : list F * F) : bool := (vec_eq (fst a) (fst b) && feq (snd a) (snd b))%bool.
Definition de_eq (a : option (destate NumF)) (pop : list (list F * F)) (best : list F * F) : bool :=
  match a with
  | Some s => (Nat.eqb (length (de_pop NumF s)) (length pop) && forallb (fun p => mem_eq (fst p) (snd p)) (combine (de_pop NumF s) pop)
               && mem_eq (de_best NumF s) best)%bool
  | None => false end.
Definition sim_eq (a b : list (list F * F)) : bool :=
  (Nat.eqb (length a) (length b) && forallb (fun p => mem_eq (fst p) (snd p)) (combine a b))%bool.
Definition nm_ok (ro : option (nmresult NumF) * list (list (list F * F))) (x : list F) (fv : F) (it calls warn : nat) : bool :=
  match fst ro with
  | Some r => (vec_eq (r_x NumF r) x && feq (r_f NumF r) fv && Nat.eqb (r_iter NumF r) it && Nat.eqb (r_calls NumF r) calls
               && Nat.eqb (r_warn NumF r) warn && Nat.eqb (length (r_trace NumF r)) (length (snd ro))
               && forallb (fun p => sim_eq (fst p) (snd p)) (combine (r_trace NumF r) (snd ro)))%bool
  | None => false end.
Definition pw_ok (ro : option (pwresult NumF)) (x : list F) (fv : F) (it calls warn : nat) (direc allvecs : list (list F)) : bool :=
  match ro with
  | Some r => (vec_eq (pr_x NumF r) x && feq (pr_f NumF r) fv && Nat.eqb (pr_iter NumF r) it && Nat.eqb (pr_calls NumF r) calls
               && Nat.eqb (pr_warn NumF r) warn && vecs_eq (pr_direc NumF r) direc && vecs_eq (pr_vecs NumF r) allvecs
               && Nat.eqb (pr_unused NumF r) 0)%bool
  | None => false end.
"""


def _fl(xs):
    return "(%s : list F)" % lst(xs, flit)


def _fll(xss):
    return "(%s : list (list F))" % lst([_fl(r) for r in xss])


def _nl(xs):
    return "(%s : list nat)" % lst(xs, natlit)


def _tbl(pairs):
    return "(%s : list (list F * F))" % lst(["(%s, %s)" % (_fl(x), flit(y)) for x, y in pairs])


def _members(pop, popE):
    return "(%s : list (list F * F))" % lst(["(%s, %s)" % (_fl(x), flit(e)) for x, e in zip(pop, popE)])


def _terms_strategy(case, obs):
    if obs["error"]:
        return ["false"]
    lg = obs["log"]
    if lg["rs"] is None or lg["n"] is None:
        return ["false"]
    D = len(case["pop"][0])
    us = lg["us"] + [2.0] * (D + 1)     # the scripted stream continues with values that never mutate
    expr = "(trial NumF %s %s %s %s %s %s %s %s %s)" % (
        case["name"], _fll(case["pop"]), _fl(case["best"]), natlit(case["cand"]), flit(case["F"]), flit(case["CR"]),
        _nl(lg["rs"]), natlit(lg["n"]), _fl(us))
    _DEBUG[:] = [expr]
    return ["ovec_eq %s %s" % (expr, _fl(obs["trial"]))]


def _terms_degen(case, obs):
    T = []
    snaps, calls = obs["snaps"], obs["calls"]
    fn = "de1_gen" if case["solver"] == 1 else "de2_gen"
    dbg = []
    for g in range(1, len(snaps)):
        a, b = snaps[g - 1], snaps[g]
        tbl = _tbl(_table([(x, y) for x, y in obs["cost"][a["ncost"]:b["ncost"]]]))
        cs = calls[a["ncalls"]:b["ncalls"]]
        if any(c["rs"] is None or c["n"] is None for c in cs):
            T.append("false"); dbg.append("false"); continue
        draws = "(%s : list (draw NumF))" % lst(["(%s, %s, %s)" % (_nl(c["rs"]), natlit(c["n"]), _fl(c["us"] + [2.0])) for c in cs])
        st = "(mkDE NumF %s (%s, %s))" % (_members(a["pop"], a["popE"]), _fl(a["best"]), flit(a["bestE"]))
        expr = "(%s NumF (lookup %s) %s %s %s %s %s)" % (fn, tbl, case["name"], flit(case["F"]), flit(case["CR"]), draws, st)
        dbg.append("option_map (fun s => (de_pop NumF s, de_best NumF s)) " + expr)
        T.append("de_eq %s %s (%s, %s)" % (expr, _members(b["pop"], b["popE"]), _fl(b["best"]), flit(b["bestE"])))
    _DEBUG[:] = dbg
    return T


_DEBUG = []      # Gallina expressions whose value is the MODEL's answer for the terms of the last coq_terms call


def coq_debug(case, obs, k):
    coq_terms(case, obs)
    return _DEBUG[k] if k < len(_DEBUG) else "tt"


def widen(rng, cases, tier):
    """more cases of the kinds (and streams) that disagreed"""
    out = []
    for c in cases:
        for _ in range(120):
            k = c["kind"]
            out.append(_gen_strategy(rng) if k == "strategy" else _gen_degen(rng) if k == "degen"
                       else _gen_powell(rng, tier) if k == "powell" else _gen_nm(rng, tier, kind=k))
    return out


def coq_terms(case, obs):
    if "__exception__" in obs:
        return []
    k = case["kind"]
    if k == "strategy":
        return _terms_strategy(case, obs)
    if k == "degen":
        return _terms_degen(case, obs)
    if k in ("nm", "nmapi"):
        return _terms_nm(case, obs)
    if k == "powell":
        return _terms_powell(case, obs)
    return []


def classify(case, obs):
    k = case["kind"]
    tags = ["kind:" + k]
    if case.get("stream"):
        tags.append("stream:" + case["stream"])
    nontrivial = False
    if "__exception__" in obs:
        return json.dumps(case, sort_keys=True), False, tags + ["driver-exception"]
    if k == "strategy":
        tags += ["strategy:" + case["name"], "D:%d" % len(case["pop"][0])]
        par = case["pop"][case["cand"]]
        nm = sum(1 for a, b in zip(par, obs["trial"]) if a != b)
        tags.append("mutated:%s" % ("none" if nm == 0 else "all" if nm == len(par) else "some"))
        if any(u == case["CR"] for u in obs["log"]["us"]):
            tags.append("tie:u==CR")
        nontrivial = nm > 0
    elif k == "degen":
        tags += ["strategy:" + case["name"], "solver:DE%d" % case["solver"], "cost:" + case["obj"]["fam"],
                 "drive:" + case.get("drive", "step"), "F:%g" % case["F"], "CR:%g" % case["CR"]]
        ties = repl = 0
        for g in range(1, len(obs["snaps"])):
            a, b = obs["snaps"][g - 1], obs["snaps"][g]
            ev = obs["cost"][a["ncost"]:b["ncost"]]
            for c, (x, e) in enumerate(ev[:len(a["popE"])]):
                ties += (e == a["popE"][c])
                repl += (e < a["popE"][c])
        if ties:
            tags.append("tie:trialE==popE")
        if repl:
            tags.append("replacement")
        nontrivial = True
    elif k in ("nm", "nmapi"):
        from harness.props.c08_ref import ref_fmin
        n = len(case["x0"])
        tags += ["dim:%d" % n, "obj:" + case["obj"]["fam"], "stop:warnflag=%d" % obs["warnflag"],
                 "xtol:%g" % case["xtol"], "ftol:%g" % case["ftol"]]
        if any(v == 0.0 for v in case["x0"]):
            tags.append("x0-has-zero-coordinate")
        r = ref_fmin(objective(case["obj"]), case["x0"], xtol=case["xtol"], ftol=case["ftol"], maxiter=case["maxiter"],
                     maxfun=case["maxfun"], zdelt=MYSTIC_ZDELT)
        for kd in set(r["kinds"]):
            tags.append("nm-move:" + kd)
        for site, cnt in r["ties"].items():
            if cnt:
                tags.append("tie:nm:" + site)
        # did the observed order among tied vertices differ from a stable sort?  (numpy.argsort is not stable)
        for p_, e_ in obs["sims"]:
            if len(set(e_)) < len(e_):
                tags.append("tie:nm:simplex-with-equal-energies"); break
        nontrivial = obs["iter"] > 1
    elif k == "powell":
        n = len(case["x0"])
        tags += ["dim:%d" % n, "obj:" + case["obj"]["fam"], "stop:warnflag=%d" % obs["warnflag"], "ftol:%g" % case["ftol"],
                 "direc:" + ("custom" if case.get("direc") else "identity")]
        if any(r["f0"] is not None and r["fret"] > r["f0"] for r in obs["ls"]):
            tags.append("oracle-hypothesis-violated:fret>f(current)")
        ident = [[1.0 if i == j else 0.0 for j in range(n)] for i in range(n)]
        if obs["direc"] != (case.get("direc") or ident):
            tags.append("powell:direction-replaced")
        if obs["iter"] == 2:
            tags.append("powell:iter=2")
        from harness.props.c08_ref import ref_fmin_powell
        import mystic._scipy060optimize as bundled
        r = ref_fmin_powell(objective(case["obj"]), case["x0"], bundled.brent, xtol=case["xtol"], ftol=case["ftol"],
                            maxiter=case["maxiter"], maxfun=case["maxfun"], direc=case.get("direc"), first_test=False)
        for site, cnt in r["ties"].items():
            if cnt:
                tags.append("powell:" + site)
        nontrivial = obs["iter"] >= 1 and len(obs["ls"]) > 0
    return json.dumps(case, sort_keys=True), nontrivial, tags


def shrink(case):
    k = case["kind"]
    if k in ("nm", "nmapi", "powell"):
        n = len(case["x0"])
        if case["maxiter"] is None or case["maxiter"] > 1:
            for m in (1, 2, 3, 5, 10, 20):
                if case["maxiter"] is None or m < case["maxiter"]:
                    yield dict(case, maxiter=m)
        if n > 1 and not case.get("direc"):
            for j in range(n):
                o = dict(case["obj"], c=case["obj"]["c"][:j] + case["obj"]["c"][j + 1:], w=case["obj"]["w"][:j] + case["obj"]["w"][j + 1:])
                yield dict(case, x0=case["x0"][:j] + case["x0"][j + 1:], obj=o)
        for j in range(n):
            for v in (1.0, 0.5):
                if case["x0"][j] != v and case["x0"][j] not in (0.0, 1.0):
                    yield dict(case, x0=case["x0"][:j] + [v] + case["x0"][j + 1:])
    if k == "degen" and case["gens"] > 1:
        yield dict(case, gens=case["gens"] - 1)
    if k == "strategy":
        D = len(case["pop"][0])
        if D > 1:
            for j in range(D):
                if j == case["n"]:
                    continue
                c = dict(case, pop=[r[:j] + r[j + 1:] for r in case["pop"]], best=case["best"][:j] + case["best"][j + 1:],
                         n=case["n"] - (1 if j < case["n"] else 0))
                yield c
