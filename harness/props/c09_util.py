"""C09 helpers: drivers observing mystic's ensemble solvers from outside, the direct oracle, and the Gallina printers.

The cost / constraint / penalty handed to mystic are MODULE-LEVEL functions of this importable module: mystic deep-copies the
nested solver with dill, which pickles such functions by reference, so every member calls the same recording function."""
import json, math, random, threading
from harness.coqio import flit, natlit, zlit, lst, opt, blit

_CS = {}                       # current cost / constraint / penalty specification
_LOG = []                      # every real cost call: (member tag or None, point)
_TLS = threading.local()


def fail(clause, site, pattern, detail):
    return dict(clause=clause, site=site, pattern=pattern, detail=detail)


# ------------------------------------------------------------------ the user functions (owned by the harness)

def raw_cost(xs, spec=None):
    spec = spec or _CS["cost"]
    fam, c, q = spec["fam"], spec["c"], spec["q"]
    d = [abs(x - ci) for x, ci in zip(xs, c)]
    if fam == "quad":
        return float(sum(t * t for t in d))
    if fam == "abs":
        return float(sum(d))
    if fam == "coarse":
        return float(math.floor(q * sum(d)) / q)
    if fam == "cmax":
        return float(math.floor(q * max(d)) / q)
    return 1.0     # const: every member ties


def _cost(x):
    xs = [float(v) for v in x]
    _LOG.append((getattr(_TLS, "cur", None), xs))
    return raw_cost(xs)


def cons_apply(name, xs, lo, hi):
    xs = list(xs)
    if name == "round":            # lo/hi are multiples of 1/4: compatible with the box, idempotent
        xs[0] = round(xs[0] * 4) / 4.0
    elif name == "pin":
        xs[-1] = lo[-1] + 0.5 * (hi[-1] - lo[-1])
    return xs


def _constraint(x):
    return cons_apply(_CS["cons"], [float(v) for v in x], _CS["lo"], _CS["hi"])


def pen_value(name, xs, lo, hi):
    if name == "lin":
        return 8.0 * max(0.0, xs[0] - (lo[0] + 0.5 * (hi[0] - lo[0])))
    if name == "quad":
        t = max(0.0, xs[-1] - (lo[-1] + 0.25 * (hi[-1] - lo[-1])))
        return 4.0 * t * t
    return 0.0


def _penalty(x):
    return pen_value(_CS["pen"], [float(v) for v in x], _CS["lo"], _CS["hi"])


def _setup(case, lo_eff=None, hi_eff=None):
    _CS.clear()
    dim = case["dim"]
    _CS.update(cost=case["cost"], cons=case.get("cons"), pen=case.get("pen"),
               lo=case.get("lo") or lo_eff or [-1.0] * dim, hi=case.get("hi") or hi_eff or [1.0] * dim)
    del _LOG[:]


def _seed(s):
    import numpy
    random.seed(s)
    numpy.random.seed(s % (2 ** 32))


# ------------------------------------------------------------------ recording the RNG from outside

class Recorder(object):
    """records numpy.random.rand and random.random while active (the two draw sources of the point generators)"""
    def __init__(self):
        self.rand, self.random = [], []

    def __enter__(self):
        import numpy
        self._r0, self._n0 = random.random, numpy.random.rand
        rec = self

        def rnd():
            v = rec._r0()
            rec.random.append(float(v))
            return v

        def rand(*shape):
            v = rec._n0(*shape)
            rec.rand.append([list(shape), numpy.array(v, dtype=float).reshape(-1).tolist()])
            return v
        random.random, numpy.random.rand = rnd, rand
        return self

    def __exit__(self, *a):
        import numpy
        random.random, numpy.random.rand = self._r0, self._n0
        return False


# ------------------------------------------------------------------ maps

def make_map(kind, st):
    """a map(f, *iterables) that evaluates the work items in a chosen order, tags every cost call with the index of the work
    item that made it, and returns the results in input order"""
    def mp(f, *args, **kw):
        n = min(len(a) for a in args) if args else 0
        order = list(range(n))
        if kind == "rev":
            order.reverse()
        elif kind in ("shuf", "thr"):
            random.Random(1234 + n).shuffle(order)
        st["sched"] = order
        st["ops"] = list(args[0])
        st["iv_map"] = [None if v is None else [float(t) for t in v] for v in args[1]]
        st["ncalls"] = st.get("ncalls", 0) + 1

        def run(i):
            _TLS.cur = i
            try:
                return f(*[a[i] for a in args])
            finally:
                _TLS.cur = None
        out = [None] * n
        if kind == "thr":
            from concurrent.futures import ThreadPoolExecutor
            with ThreadPoolExecutor(max_workers=3) as ex:
                futs = [(i, ex.submit(run, i)) for i in order]
                for i, fu in futs:
                    out[i] = fu.result()
        else:
            for i in order:
                out[i] = run(i)
        return out
    return mp


# ------------------------------------------------------------------ building the solvers

def _termination(spec):
    from mystic import termination as T
    t = spec["type"]
    if t == "VTR":
        return T.VTR(spec["tol"])
    if t == "COG":
        return T.ChangeOverGeneration(spec["tol"], spec["gen"])
    if t == "NCOG":
        return T.NormalizedChangeOverGeneration(spec["tol"], spec["gen"])
    return None


def _nested(name):
    from mystic.solvers import NelderMeadSimplexSolver, PowellDirectionalSolver, DifferentialEvolutionSolver, DifferentialEvolutionSolver2
    return {"NM": NelderMeadSimplexSolver, "Powell": PowellDirectionalSolver,
            "DE": DifferentialEvolutionSolver, "DE2": DifferentialEvolutionSolver2}[name]


def _new_solver(case):
    from mystic.solvers import LatticeSolver, BuckshotSolver, SparsitySolver
    k = case["solver"]
    if k == "lattice":
        return LatticeSolver(case["dim"], case["nbins"])
    if k == "buckshot":
        return BuckshotSolver(case["dim"], case["npts"])
    return SparsitySolver(case["dim"], case["npts"], case.get("rtol"))


def _vec(v):
    return [float(t) for t in v]


def _member_obs(m, case, term):
    d = dict(id=int(m.id), evals=int(m.evaluations), gens=int(m.generations), bestE=float(m.bestEnergy), bestX=_vec(m.bestSolution),
             lim=[None if m._maxiter is None else int(m._maxiter), None if m._maxfun is None else int(m._maxfun)])
    inh = {}
    if case.get("lo"):
        inh["ranges"] = bool(m._useStrictRange) and _vec(m._strictMin) == case["lo"] and _vec(m._strictMax) == case["hi"]
        # ... imposed the way the ensemble was told to impose them (tight / clip), in every mode
        inh["range_mode"] = [m._useTightRange, m._useClipRange] == list(case.get("rmode") or [None, None])
    if case.get("maxfun") is not None:
        inh["maxfun"] = m._maxfun == case["maxfun"]
    if case.get("maxiter") is not None:
        inh["maxiter"] = m._maxiter == case["maxiter"]
    if case.get("cons"):
        inh["constraints"] = m._constraints is _constraint
    if case.get("pen"):
        inh["penalty"] = m._penalty is _penalty
    if term is not None:
        inh["termination"] = (m._termination is term) or (getattr(m._termination, "__doc__", 0) == getattr(term, "__doc__", 1))
    d["inherit"] = inh
    return d


def _log_stats(case, nmem):
    lo, hi, cons = case.get("lo"), case.get("hi"), case.get("cons")
    nreal, first = [0] * nmem, [None] * nmem
    untagged = n_out = n_unc = 0
    for tag, p in list(_LOG):
        if tag is None or not (0 <= tag < nmem):
            untagged += 1
        else:
            if first[tag] is None:
                first[tag] = p
            nreal[tag] += 1
        if lo and any(x < l or x > h for x, l, h in zip(p, lo, hi)):
            n_out += 1
        if cons and cons_apply(cons, p, lo, hi) != p:
            n_unc += 1
    return dict(real_total=len(_LOG), nreal=nreal, first=first, untagged=untagged, n_outside=n_out, n_uncons=n_unc)


def _report(s):
    return dict(bestE=float(s.bestEnergy), bestX=_vec(s.bestSolution), evals=int(s.evaluations),
                total=int(s._total_evals), all_evals=[int(v) for v in s._all_evals],
                all_bestE=[None if v is None else float(v) for v in s._all_bestEnergy],
                all_bestX=[None if v is None else _vec(v) for v in s._all_bestSolution],
                all_gens=[int(v) for v in s._all_iters],
                best_id=None if s._bestSolver is None else int(s._bestSolver.id))


STEP_CAP = 45


def run_ensemble(case, mode, mapkind):
    import numpy
    s = _new_solver(case)
    dim = case["dim"]
    _setup(case, _vec(s._defaultMin), _vec(s._defaultMax))
    _seed(case["seed"])
    st = dict(mode=mode, map=mapkind, lo_eff=case.get("lo") or _vec(s._defaultMin), hi_eff=case.get("hi") or _vec(s._defaultMax))
    term = _termination(case["term"])
    try:
        tmpl = None
        if case.get("nested_instance"):
            tmpl = _nested(case["nested"])(dim, case["NP"]) if case.get("NP") else _nested(case["nested"])(dim)
            s.SetNestedSolver(tmpl)
        elif case.get("NP"):
            s.SetNestedSolver(_nested(case["nested"]), NP=case["NP"])
        else:
            s.SetNestedSolver(_nested(case["nested"]))
        if case.get("lo"):
            if case.get("rmode"):      # ranges imposed together with the constraints (tight / clip=True): handed on to every member in both modes
                s.SetStrictRanges(list(case["lo"]), list(case["hi"]), tight=case["rmode"][0], clip=case["rmode"][1])
            else:
                s.SetStrictRanges(list(case["lo"]), list(case["hi"]))
        s.SetEvaluationLimits(case.get("maxiter"), case.get("maxfun"))
        if term is not None:
            s.SetTermination(term)
        if case.get("cons"):
            s.SetConstraints(_constraint)
        if case.get("pen"):
            s.SetPenalty(_penalty)
        if case.get("legacy_evals"):
            from mystic.monitors import Monitor
            legacy = Monitor()
            for j in range(case["legacy_evals"]):
                legacy([float(j)] * dim, 1000.0 + j)
            s.SetEvaluationMonitor(legacy)
        if mapkind != "default":
            s.SetMapper(make_map(mapkind, st))
        if case.get("dist"):
            s.SetDistribution(_dist(case))
        orig = s._InitialPoints

        def wrapped():
            with Recorder() as rec:
                r = orig()
            st["iv"] = [_vec(p) for p in r]
            st["rand"], st["random"] = rec.rand, rec.random
            return r
        s._InitialPoints = wrapped
        steps = []
        if mode == "solve":
            s.Solve(_cost)
        else:
            s.SetObjective(_cost)
            for k in range(STEP_CAP):
                if case.get("loop") and s.Terminated():      # the canonical `while not solver.Terminated(): solver.Step()` loop
                    msg = True
                    break
                msg = s.Step()
                snap = _report(s)
                snap["nreal"] = _log_stats(case, len(s._allSolvers))["nreal"]
                snap["real_total"] = len(_LOG)
                steps.append(snap)
                if msg:
                    break
            st["stopped"] = bool(msg)
        nmem = len(s._allSolvers)
        st["members"] = [_member_obs(m, case, term if term is not None else None) for m in s._allSolvers]
        st["rep"] = _report(s)
        st.update(_log_stats(case, nmem))
        st["steps"] = steps
        st["nslots"] = nmem
        if tmpl is not None:      # the members are copies: the user's own solver object is not run (it can configure another ensemble afterwards)
            st["template_used"] = [int(tmpl.evaluations), int(tmpl.generations), len(tmpl._stepmon)]
    except Exception as e:
        st["error"] = type(e).__name__
        st["msg"] = str(e)[:200]
    st.pop("ops", None)
    return st


# ------------------------------------------------------------------ wrappers and generator-only kinds

def run_wrapper(case):
    from mystic import solvers as S
    from mystic.termination import NormalizedChangeOverGeneration as NCOG, VTRChangeOverGeneration as VCOG
    fn = getattr(S, case["solver"])
    dim, lo, hi = case["dim"], case["lo"], case["hi"]
    kw = dict(bounds=list(zip(lo, hi)), ftol=case["ftol"], maxiter=case["maxiter"], maxfun=case["maxfun"], disp=0)
    if case["gtol"] is not None:
        kw["gtol"] = case["gtol"]
    if case["nested"]:
        kw["solver"] = _nested(case["nested"])
    if case["cons"]:
        kw["constraints"] = _constraint
    if case["pen"]:
        kw["penalty"] = _penalty
    if case["step"]:
        kw["step"] = True
    out = {}
    for full in (1, 0):
        _setup(case)
        _seed(case["seed"])
        st = {}
        k2 = dict(kw, full_output=full)
        if case["map"] != "default":
            k2["map"] = make_map(case["map"], st)
        try:
            r = fn(_cost, dim, case["arg"], **k2)
        except Exception as e:
            out["full%d" % full] = dict(error=type(e).__name__, msg=str(e)[:200])
            continue
        o = dict(real_total=len(_LOG))
        if full:
            o["tuple"] = [_vec(r[0]), float(r[1]), int(r[2]), int(r[3]), int(r[4]), int(r[5])]
        else:
            o["x"] = _vec(r)
        ops = st.get("ops")
        if ops is not None:
            o["members"] = [dict(evals=int(m.evaluations), bestE=float(m.bestEnergy), bestX=_vec(m.bestSolution), gens=int(m.generations),
                                 maxfun=m._maxfun, maxiter=m._maxiter) for m in ops]
            o.update(_log_stats(case, len(ops)))
            o["iv"] = st.get("iv_map")
        out["full%d" % full] = o
    # the same configuration through the class API
    _setup(case)
    _seed(case["seed"])
    try:
        cls = dict(lattice=S.LatticeSolver, buckshot=S.BuckshotSolver, sparsity=S.SparsitySolver)[case["solver"]]
        s = cls(dim, case["arg"])
        if case["nested"]:
            s.SetNestedSolver(_nested(case["nested"]))
        s.SetEvaluationLimits(case["maxiter"], case["maxfun"])
        if case["pen"]:
            s.SetPenalty(_penalty)
        if case["cons"]:
            s.SetConstraints(_constraint)
        s.SetStrictRanges(list(lo), list(hi))
        gtol = 10 if case["gtol"] is None else case["gtol"]
        term = NCOG(case["ftol"], gtol) if gtol else VCOG(case["ftol"])
        if case["step"]:
            s.Solve(_cost, termination=term, disp=0, step=True)
        else:
            s.Solve(_cost, termination=term, disp=0)
        out["class"] = dict(x=_vec(s.bestSolution), fval=float(s.bestEnergy), iters=int(s.generations), fcalls=int(s.evaluations),
                            total=int(s._total_evals), real_total=len(_LOG), nmembers=len(s._allSolvers))
    except Exception as e:
        out["class"] = dict(error=type(e).__name__, msg=str(e)[:200])
    return out


def _dist(case):
    import numpy
    from mystic.math import Distribution
    return Distribution(numpy.random.normal, 0.0, 0.35)


def run_points(case):
    import numpy
    from mystic.math import grid
    k = case["kind"]
    _seed(case.get("seed", 0))
    out = {}
    try:
        if k == "gridpts":
            r = grid.gridpts([list(a) for a in case["q"]])
            out["pts"] = [[int(v) for v in p] for p in r]
        elif k == "randomly_bin":
            with Recorder() as rec:
                r = grid.randomly_bin(case["N"], case["ndim"], ones=True, exact=True)
            out["bins"] = [int(v) for v in r]
            out["random"] = rec.random
        elif k == "samplepts":
            with Recorder() as rec:
                r = grid.samplepts(list(case["lo"]), list(case["hi"]), case["npts"], _dist(case) if case["dist"] else None)
            out["pts"] = [_vec(p) for p in r]
            out["rand"] = rec.rand
        elif k == "fillpts":
            data = None if case["data"] is None else [list(p) for p in case["data"]]
            r = grid.fillpts(list(case["lo"]), list(case["hi"]), case["npts"], data, case["rtol"], _dist(case) if case["dist"] else None)
            out["pts"] = [_vec(p) for p in r]
        elif k == "lattice_pts":
            from mystic.solvers import LatticeSolver
            s = LatticeSolver(case["dim"], case["nbins"])
            if case["bounded"]:
                s.SetStrictRanges(list(case["lo"]), list(case["hi"]))
            if case["dist"]:
                s.SetDistribution(_dist(case))
            out["lo_eff"] = case["lo"] if case["bounded"] else _vec(s._defaultMin)
            out["hi_eff"] = case["hi"] if case["bounded"] else _vec(s._defaultMax)
            out["npts_requested"] = int(s._npts)
            out["nslots"] = len(s._allSolvers)
            with Recorder() as rec:
                r = s._InitialPoints()
            out["pts"] = [_vec(p) for p in r]
            out["random"] = rec.random
    except Exception as e:
        out["error"] = type(e).__name__
        out["msg"] = str(e)[:200]
    return out


def run_impl(case):
    import warnings
    warnings.simplefilter("ignore")
    k = case["kind"]
    if k == "ensemble":
        return dict(runs=[run_ensemble(case, mode, mk) for mode, mk in case["runs"]])
    if k == "wrapper":
        return run_wrapper(case)
    return run_points(case)


# ------------------------------------------------------------------ the oracle: C09 stated directly on the implementation runs

INSTANCE_SITE, INSTANCE_PAT = "AbstractEnsembleSolver.__get_solver_instance", "configured-instance-ignores-ensemble-settings"


def expected_members(case):
    if case["solver"] == "lattice":
        nb = case.get("nbins", case.get("arg"))
        return int(nb) if isinstance(nb, int) else int(math.prod(nb))
    return int(case.get("npts", case.get("arg")))


def _close(a, b, rel=1e-9):
    return a == b or abs(a - b) <= rel * (1.0 + abs(a) + abs(b))


def _cell_fail(x0s, lo, hi, nbins):
    """lattice: point k (lexicographic, last axis fastest) must be the centre of cell k; returns a description or None"""
    idx = list(itertools.product(*[range(n) for n in nbins]))
    if len(idx) != len(x0s):
        return "count %d != %d" % (len(x0s), len(idx))
    for k, (js, p) in enumerate(zip(idx, x0s)):
        for i, j in enumerate(js):
            w = (hi[i] - lo[i]) / nbins[i]
            tol = 1e-12 * (1.0 + abs(lo[i]) + abs(hi[i]))
            a, b, c = lo[i] + j * w, lo[i] + (j + 1) * w, lo[i] + (j + 0.5) * w
            if not (a - tol <= p[i] <= b + tol) or abs(p[i] - c) > tol:
                return "point %d axis %d: %r not the centre of [%r, %r]" % (k, i, p[i], a, b)
    return None


def _bins_from_points(x0s, dim):
    return [len(set(p[i] for p in x0s)) for i in range(dim)]


import itertools


def _oracle_state(case, st, rep, tagged, where, out, inst):
    """clauses that must hold of every reported state (after Solve, and after every Step)"""
    def add(clause, site, pattern, detail):
        out.append(fail(clause, site, pattern, dict(where=where, run=[st["mode"], st["map"]], detail=detail)))
    E = rep["all_bestE"]
    if any(e is None or e != e for e in E):
        add("best_is_min_member", "AbstractEnsembleSolver.__update_bestSolver", "member-without-energy", E)
        return
    mn = min(E)
    if rep["bestE"] != mn:
        add("best_is_min_member", "AbstractEnsembleSolver.__update_bestSolver", "reported-energy-not-min", [rep["bestE"], E])
    else:
        ok = [i for i, e in enumerate(E) if e == mn and rep["all_bestX"][i] == rep["bestX"]]
        if not ok:
            add("solution_is_that_members", "AbstractEnsembleSolver.__update_state", "solution-of-no-minimal-member", [rep["bestX"], rep["all_bestX"], E])
        elif not any(rep["all_evals"][i] == rep["evals"] for i in ok):
            add("solution_is_that_members", "AbstractEnsembleSolver.__update_state", "evaluations-not-that-members", [rep["evals"], rep["all_evals"], ok])
    # the reported energy is the (penalised) cost AT the reported solution -- after Solve and after every Step
    lo, hi = case.get("lo") or st["lo_eff"], case.get("hi") or st["hi_eff"]
    b = rep["bestX"]
    cands = [b] + ([cons_apply(case["cons"], b, lo, hi)] if case.get("cons") else [])
    vals = [raw_cost(c, case["cost"]) + pen_value(case.get("pen"), c, lo, hi) for c in cands]
    if not inst and not any(_close(v, rep["bestE"]) for v in vals):
        add("solution_is_that_members", "AbstractEnsembleSolver.__update_state", "reported-energy-not-cost-at-reported-solution", [b, rep["bestE"], vals])
    if rep["total"] != sum(rep["all_evals"]):
        add("total_evals_is_sum", "AbstractEnsembleSolver._total_evals", "total-not-sum", [rep["total"], rep["all_evals"]])
    real = st["real_total"] if where == "final" else rep["real_total"]
    nreal = st["nreal"] if where == "final" else rep["nreal"]
    if rep["total"] != real:
        if inst:
            out.append(fail("total_evals_is_sum", INSTANCE_SITE, INSTANCE_PAT, dict(total=rep["total"], real=real)))
        else:
            pat = "total-not-real-calls"
            if case.get("nested") == "DE2" and case.get("legacy_evals") and rep["total"] == real + case["legacy_evals"] * len(rep["all_evals"]):
                pat = "total-not-real-calls:de2-counter-is-monitor-length"      # F13: each DE2 member counts the records already in the monitor it was given
            add("total_evals_is_sum", "AbstractEnsembleSolver._total_evals", pat, [rep["total"], real, rep["all_evals"], nreal])
    elif tagged and rep["all_evals"] != nreal:
        add("total_evals_is_sum", "AbstractEnsembleSolver._all_evals", "member-counter-not-its-real-calls", [rep["all_evals"], nreal])


def oracle_ensemble(case, obs):
    out = []
    exp = expected_members(case)
    nb = case.get("nbins")
    degenerate = exp == 0 or (isinstance(nb, list) and (0 in nb or len(nb) != case["dim"]))
    inst = bool(case.get("nested_instance"))
    lo, hi = case.get("lo"), case.get("hi")
    finals = {}
    for st in obs["runs"]:
        tagged = st["map"] != "default"
        run = [st["mode"], st["map"]]

        def add(clause, site, pattern, detail):
            out.append(fail(clause, site, pattern, dict(run=run, detail=detail)))
        if "error" in st:
            if not degenerate and not (inst and st["mode"] == "step"):
                add("no-crash", "ensemble." + case["solver"], st["error"], st.get("msg"))
            continue
        if degenerate:
            continue          # the real code accepted a degenerate request: nothing is claimed
        mem, rep = st["members"], st["rep"]
        # --- exactly as many members as requested, each of them ran
        if not (st["nslots"] == exp and len(mem) == exp and len(st.get("iv", [])) == exp):
            add("member_count", "ensemble._InitialPoints", "member-count", [st["nslots"], len(mem), len(st.get("iv", [])), exp])
            continue
        if inst and (any(m["evals"] < 1 for m in mem) or (tagged and any(n < 1 for n in st["nreal"]))):
            out.append(fail("member_count", INSTANCE_SITE, INSTANCE_PAT, "a member never reached the cost"))
        elif any(m["evals"] < 1 for m in mem) or (tagged and any(n < 1 for n in st["nreal"])):
            add("member_count", "AbstractEnsembleSolver._Solve", "member-never-ran", [[m["evals"] for m in mem], st["nreal"]])
        if rep["all_bestE"] != [m["bestE"] for m in mem] or rep["all_evals"] != [m["evals"] for m in mem]:
            add("total_evals_is_sum", "AbstractEnsembleSolver._all_evals", "all-lists-not-members", None)
        if st.get("template_used") and any(st["template_used"]):
            add("member_count", "AbstractEnsembleSolver.__init_allSolvers", "configured-instance-itself-was-run", st["template_used"])
        _oracle_state(case, st, rep, tagged, "final", out, inst)
        if tagged and st["untagged"]:
            add("total_evals_is_sum", "AbstractEnsembleSolver._Solve", "cost-called-outside-members", st["untagged"])
        # --- start points
        iv = st["iv"]
        dist = bool(case.get("dist"))
        if lo and not dist:
            for i, p in enumerate(iv):
                if any(x < l or x > h for x, l, h in zip(p, lo, hi)):
                    add("start_inside_ranges", "ensemble._InitialPoints", "start-outside-ranges", [i, p])
                    break
        if case["solver"] == "lattice" and not dist:
            bins = nb if isinstance(nb, list) else _bins_from_points(iv, case["dim"])
            if math.prod(bins) != exp:
                add("member_count", "grid.randomly_bin", "bins-product", [bins, exp])
            else:
                d = _cell_fail(iv, st["lo_eff"], st["hi_eff"], bins)
                if d:
                    add("lattice_start_in_own_cell", "LatticeSolver._InitialPoints", "not-cell-centre", d)
        if tagged and dist and lo:
            for i, f in enumerate(st["first"]):
                if f is None or any(x < l or x > h for x, l, h in zip(f, lo, hi)):
                    add("start_inside_ranges", "AbstractEnsembleSolver._Solve", "member-started-outside-ranges", [i, f])
                    break
        if tagged and not dist:
            for i, (p, f) in enumerate(zip(iv, st["first"])):
                want = cons_apply(case.get("cons"), p, lo, hi) if case.get("cons") else p
                if f != want and not inst:
                    add("start_inside_ranges", "AbstractEnsembleSolver._Solve", "member-not-started-at-its-point", [i, p, f])
                    break
        # --- every member is subject to the ensemble's settings (observable effects)
        # (a configured nested INSTANCE keeps its own settings - the known finding - but the objective the ensemble hands it is the ensemble's
        #  decorated one, so the ensemble's ranges, constraints and penalty still act on every evaluation: observable effects are claimed for it too)
        sfx = ":configured-instance" if inst else ""
        if st["n_outside"]:
            add("members_inherit_settings", "AbstractEnsembleSolver.__get_solver_instance", "evaluated-outside-ranges" + sfx, st["n_outside"])
        if st["n_uncons"]:
            add("members_inherit_settings", "AbstractEnsembleSolver.__get_solver_instance", "evaluated-unconstrained" + sfx, st["n_uncons"])
        for i, m in enumerate(mem):
            b = m["bestX"]
            cands = [b] + ([cons_apply(case["cons"], b, lo, hi)] if case.get("cons") else [])
            vals = [raw_cost(c, case["cost"]) + pen_value(case.get("pen"), c, lo or st["lo_eff"], hi or st["hi_eff"]) for c in cands]
            if not any(_close(v, m["bestE"]) for v in vals):
                add("members_inherit_settings", "AbstractEnsembleSolver.__get_solver_instance", "energy-without-penalty" + sfx, [i, b, m["bestE"], vals])
                break
        bad = sorted(set(k for m in mem for k, v in m["inherit"].items() if not v))
        if bad:
            if inst:
                out.append(fail("members_inherit_settings", INSTANCE_SITE, INSTANCE_PAT, bad))
            else:
                add("members_inherit_settings", "AbstractEnsembleSolver.__get_solver_instance", "setting-not-copied:" + ",".join(bad), bad)
        # --- step mode: the same clauses after every Step; limits and termination stop a member
        prev = None
        for k, sp in enumerate(st["steps"]):
            n0 = len(out)
            _oracle_state(case, st, sp, tagged, "step %d" % (k + 1), out, inst)
            if prev is not None and not inst:
                for i in range(exp):
                    moved = sp["all_evals"][i] != prev["all_evals"][i]
                    if moved and case.get("maxfun") is not None and prev["all_evals"][i] >= case["maxfun"]:
                        add("members_inherit_settings", "AbstractEnsembleSolver._Step", "member-ignores-evaluation-limit", [k + 1, i, prev["all_evals"][i], sp["all_evals"][i]])
                    if moved and case["term"]["type"] == "VTR" and prev["all_bestE"][i] <= case["term"]["tol"]:
                        add("members_inherit_settings", "AbstractEnsembleSolver._Step", "member-ignores-termination", [k + 1, i, prev["all_bestE"][i]])
                    if moved and case.get("maxiter") is not None and prev["all_gens"][i] >= case["maxiter"]:
                        add("members_inherit_settings", "AbstractEnsembleSolver._Step", "member-ignores-iteration-limit", [k + 1, i, prev["all_gens"][i]])
            prev = sp
            if len(out) > n0:
                break
        if st["mode"] == "step" and st["steps"] and not inst:
            last = st["steps"][-1]
            if (last["bestE"], last["bestX"], last["total"]) != (rep["bestE"], rep["bestX"], rep["total"]):
                add("best_is_min_member", "AbstractEnsembleSolver._Step", "final-state-not-last-step", None)
        # the limits the members run under do not depend on the mode (Solve / Step-wise / Terminated() asked before the first Step)
        lims = [m.get("lim") for m in mem]
        if not inst:
            if "lims" in finals and finals["lims"][0] != lims and len(lims) == len(finals["lims"][0]):
                add("members_inherit_settings", "AbstractEnsembleSolver.Terminated", "member-limits-depend-on-mode", dict(first=finals["lims"][0][:2], now=lims[:2], runs=[finals["lims"][1], run]))
            finals.setdefault("lims", (lims, run))
        key = st["mode"]
        sig = (json.dumps(rep, sort_keys=True), json.dumps([[m["bestE"], m["bestX"], m["evals"]] for m in mem]), json.dumps(iv))
        if case["nested"] in ("DE", "DE2"):
            continue          # members consume the global RNG: results legitimately depend on the evaluation order
        if key in finals and finals[key][0] != sig:
            add("map_order_independent", "AbstractEnsembleSolver._Solve", "result-depends-on-map-order", [finals[key][1], run])
        finals.setdefault(key, (sig, run))
    # de-duplicate (the same root cause shows up in every run)
    seen, uniq = set(), []
    for f in out:
        k = (f["clause"], f["site"], f["pattern"])
        if k not in seen:
            seen.add(k)
            uniq.append(f)
    return uniq


def oracle_wrapper(case, obs):
    out = []
    site = "ensemble." + case["solver"]

    def add(clause, pattern, detail):
        out.append(fail(clause, site, pattern, detail))
    for k in ("full1", "full0", "class"):
        if "error" in obs[k]:
            add("no-crash", obs[k]["error"], [k, obs[k].get("msg")])
    if out:
        return out
    f1, f0, cl = obs["full1"], obs["full0"], obs["class"]
    x, fval, iters, fcalls, warn, allf = f1["tuple"]
    exp = expected_members(case)
    if allf != f1["real_total"]:
        add("wrapper_tuple", "allfuncalls-not-real-calls", [allf, f1["real_total"]])
    if raw_cost(x, case["cost"]) + pen_value(case["pen"], x, case["lo"], case["hi"]) != fval and not case["cons"]:
        add("wrapper_tuple", "fopt-not-cost-at-xopt", [x, fval])
    if case["maxfun"] is not None and (warn == 1) != (fcalls >= case["maxfun"]):
        add("wrapper_tuple", "warnflag", [warn, fcalls, case["maxfun"]])
    if "members" in f1:
        mem = f1["members"]
        if len(mem) != exp:
            add("member_count", "member-count", [len(mem), exp])
        else:
            E = [m["bestE"] for m in mem]
            if fval != min(E):
                add("best_is_min_member", "reported-energy-not-min", [fval, E])
            elif not any(m["bestE"] == fval and m["bestX"] == x and m["evals"] == fcalls and m["gens"] == iters for m in mem):
                add("solution_is_that_members", "tuple-of-no-minimal-member", [f1["tuple"], mem])
            if [m["evals"] for m in mem] != f1["nreal"] or sum(f1["nreal"]) != allf:
                add("total_evals_is_sum", "member-counter-not-its-real-calls", [[m["evals"] for m in mem], f1["nreal"], allf])
            if f1["n_outside"] or f1["n_uncons"]:
                add("members_inherit_settings", "evaluated-outside-ranges-or-unconstrained", [f1["n_outside"], f1["n_uncons"]])
    if [x, fval, iters, fcalls, allf] != [cl["x"], cl["fval"], cl["iters"], cl["fcalls"], cl["total"]] or cl["nmembers"] != exp:
        add("wrapper_tuple", "differs-from-class-api", [f1["tuple"], cl])
    if f0["x"] != cl["x"]:
        add("wrapper_tuple", "plain-return-differs-from-class-api", [f0["x"], cl["x"]])
    return out


def oracle_points(case, obs):
    k = case["kind"]
    out = []
    err = obs.get("error")
    if k == "gridpts":
        q = case["q"]
        if not q:
            return [] if err else [fail("gridpts_is_product", "grid.gridpts", "accepts-no-axes", obs)]
        if err:
            return [fail("no-crash", "grid.gridpts", err, obs.get("msg"))]
        exp = [list(t) for t in itertools.product(*q)]
        if obs["pts"] != exp:
            if any(len(a) == 0 for a in q):
                return [fail("gridpts_is_product", "grid.gridpts", "empty-axis-not-empty-product", dict(q=q, got=obs["pts"][:6]))]
            return [fail("gridpts_is_product", "grid.gridpts", "not-lexicographic-product", dict(q=q, got=obs["pts"][:8], want=exp[:8]))]
        return []
    if k == "randomly_bin":
        if err:
            return [fail("no-crash", "grid.randomly_bin", err, obs.get("msg"))]
        if len(obs["bins"]) != case["ndim"] or math.prod(obs["bins"]) != case["N"] or any(b < 1 for b in obs["bins"]):
            return [fail("member_count", "grid.randomly_bin", "bins-product", obs["bins"])]
        return []
    lo, hi = case["lo"], case["hi"]
    if k == "lattice_pts":
        nb = case["nbins"]
        exp = nb if isinstance(nb, int) else math.prod(nb)
        if exp == 0:
            return []
        if err:
            return [fail("no-crash", "LatticeSolver._InitialPoints", err, obs.get("msg"))]
        pts = obs["pts"]
        if not (len(pts) == exp == obs["npts_requested"] == obs["nslots"]):
            return [fail("member_count", "LatticeSolver._InitialPoints", "member-count", [len(pts), exp, obs["npts_requested"], obs["nslots"]])]
        if case["dist"]:
            return []
        bins = nb if isinstance(nb, list) else _bins_from_points(pts, case["dim"])
        if isinstance(nb, int) and any(l == h for l, h in zip(obs["lo_eff"], obs["hi_eff"])):
            return []      # zero-width axis: the bin layout cannot be read off the points
        if math.prod(bins) != exp:
            return [fail("member_count", "grid.randomly_bin", "bins-product", [bins, exp])]
        d = _cell_fail(pts, obs["lo_eff"], obs["hi_eff"], bins)
        return [fail("lattice_start_in_own_cell", "LatticeSolver._InitialPoints", "not-cell-centre", d)] if d else []
    # samplepts / fillpts
    site = "grid." + k
    if err:
        if case["dist"] and any(h - l < 0.1 for l, h in zip(lo, hi)):
            return []      # a N(0,0.35) distribution cannot be resampled strictly inside a (nearly) zero-width range: rejected input
        return [fail("no-crash", site, err, obs.get("msg"))]
    pts = obs["pts"]
    if len(pts) != case["npts"]:
        out.append(fail("member_count", site, "point-count", [len(pts), case["npts"]]))
    bad = [p for p in pts if len(p) != case["dim"] or any(x < l or x > h for x, l, h in zip(p, lo, hi))]
    if bad:
        if k == "fillpts" and case["dist"]:
            out.append(fail("samples_within_ranges", "grid.fillpts", "dist-perturbation-leaves-ranges", dict(lo=lo, hi=hi, bad=bad[:3])))
        else:
            out.append(fail("samples_within_ranges", site, "point-outside-ranges", dict(lo=lo, hi=hi, bad=bad[:3])))
    return out


def oracle(case, obs):
    if "__exception__" in obs:
        return [fail("no-crash", "harness-driver", obs["__exception__"], obs.get("__msg__"))]
    k = case["kind"]
    if k == "ensemble":
        return oracle_ensemble(case, obs)
    if k == "wrapper":
        return oracle_wrapper(case, obs)
    return oracle_points(case, obs)


# ------------------------------------------------------------------ Coq side

PREAMBLE = r"""
From Coq Require Import PrimFloat.
From MV Require Import Common.Num Core.Ensemble.
Definition FM := member nat float nat.
Definition FE := ens nat float nat.
Definition fresh_m (i c : nat) : FM := mkMember i c None (mkResult 0%nat infinity 0%nat nil).
(* one table row per member: (interned solution, best energy, evaluation counter, number of real cost calls) *)
Definition row := (nat * float * nat * nat)%type.
Definition run_tbl (tbl : list row) (m : FM) (x0 : option nat) : result nat float :=
  match nth_error tbl (m_id m) with
  | Some (s, e, v, n) => mkResult s e v (repeat 0%nat n)
  | None => m_res m
  end.
Fixpoint go (e : FE) (first : bool) (starts : list (option nat)) (sched : list nat) (tbls : list (list row)) : list (option FE) :=
  match tbls with
  | nil => nil
  | t :: r =>
      match ens_round PrimFloat.leb fresh_m (run_tbl t) e (if first then starts else map (fun _ => None) starts) sched with
      | None => None :: nil
      | Some e' => Some e' :: go e' false starts sched r
      end
  end.
Definition natl_eq (a b : list nat) : bool :=
  (Nat.eqb (length a) (length b) && forallb (fun p => Nat.eqb (fst p) (snd p)) (combine a b))%bool.
Definition on_eq (a b : option nat) : bool :=
  match a, b with Some x, Some y => Nat.eqb x y | None, None => true | _, _ => false end.
(* expected: (bestEnergy, interned bestSolution, evaluations, id of _bestSolver, _all_evals, _total_evals, real cost calls) *)
Definition expd := (float * nat * nat * nat * list nat * nat * nat)%type.
Definition chk (e : option FE) (x : expd) : bool :=
  match e, x with
  | Some e, (be, sid, ev, bid, ae, tot, real) =>
      (feq (e_energy e) be && on_eq (e_sol e) (Some sid) && Nat.eqb (e_evals e) ev
       && on_eq (option_map (fun m : FM => m_id m) (e_best e)) (Some bid) && natl_eq (all_evals (e_all e)) ae
       && Nat.eqb (total_evals (e_all e)) tot && Nat.eqb (length (all_logs (e_all e))) real)%bool
  | None, _ => false
  end.
Definition e0 (npts : nat) : FE := ens_init nat float nat 0%nat NestedClass 0%nat npts infinity.
Definition check_run (npts : nat) (starts : list (option nat)) (sched : list nat) (tbls : list (list row)) (exps : list expd) : bool :=
  let es := go (e0 npts) true starts sched tbls in
  (Nat.eqb (length es) (length exps) && forallb (fun p => chk (fst p) (snd p)) (combine es exps))%bool.
Definition check_err (npts : nat) : bool :=
  match go (e0 npts) true nil nil (nil :: nil) with None :: nil => true | _ => false end.
Definition fll_eq (a b : list (list float)) : bool :=
  (Nat.eqb (length a) (length b) && forallb (fun p => flist_eq (fst p) (snd p)) (combine a b))%bool.
Definition ofll_eq (a b : option (list (list float))) : bool :=
  match a, b with Some x, Some y => fll_eq x y | None, None => true | _, _ => false end.
Definition zll_eq (a b : list (list Z)) : bool :=
  (Nat.eqb (length a) (length b) && forallb (fun p =>
     (Nat.eqb (length (fst p)) (length (snd p)) && forallb (fun t => Z.eqb (fst t) (snd t)) (combine (fst p) (snd p)))%bool) (combine a b))%bool.
Definition ozll_eq (a b : option (list (list Z))) : bool :=
  match a, b with Some x, Some y => zll_eq x y | None, None => true | _, _ => false end.
Definition onatl_eq (a b : option (list nat)) : bool :=
  match a, b with Some x, Some y => natl_eq x y | None, None => true | _, _ => false end.
Definition lattice_int (N ndim : nat) (keys : list float) (lo hi : list float) : option (list (list float)) :=
  match randomly_bin PrimFloat.ltb N ndim keys with Some nb => lattice_points NumF lo hi nb | None => None end.
Definition reports (es : list (option FE)) :=
  map (fun o => match o with Some e => Some (e_energy e, e_sol e, e_evals e, option_map (fun m : FM => m_id m) (e_best e), all_evals (e_all e)) | None => None end) es.
"""


def _fl(xs):
    return "(%s : list float)" % lst(xs, flit)


def _fll(xss):
    return "(%s : list (list float))" % lst([_fl(r) for r in xss])


def _nl(xs):
    return "(%s : list nat)" % lst(xs, natlit)


def _rows_from_rand(rec, dim, npts):
    """numpy.random.rand(dim, npts) flattened row-major -> dim rows"""
    if not rec:
        return None
    shape, flat = rec[0]
    if list(shape) != [dim, npts]:
        return None
    return [flat[i * npts:(i + 1) * npts] for i in range(dim)]


class _Intern(object):
    def __init__(self):
        self.d = {}

    def __call__(self, v):
        return self.d.setdefault(json.dumps(v), len(self.d) + 1)


def _expd(I, rep, real):
    return "(%s, %s, %s, %s, %s, %s, %s)" % (flit(rep["bestE"]), natlit(I(rep["bestX"])), natlit(rep["evals"]), natlit(rep["best_id"]),
                                             _nl(rep["all_evals"]), natlit(rep["total"]), natlit(real))


def _table(I, rep, nreal):
    return "(%s : list row)" % lst(["(%s, %s, %s, %s)" % (natlit(I(x)), flit(e), natlit(v), natlit(n))
                                    for x, e, v, n in zip(rep["all_bestX"], rep["all_bestE"], rep["all_evals"], nreal)])


def _gen_term(case, st):
    """the start-point generator model against the recorded _InitialPoints() output"""
    k = case["solver"]
    lo, hi = st["lo_eff"], st["hi_eff"]
    if case.get("dist"):
        return None
    if k == "lattice":
        nb = case["nbins"]
        expected = "None" if "error" in st or "iv" not in st else "(Some %s)" % _fll(st["iv"])
        if isinstance(nb, int):
            if "iv" not in st:
                return None
            return "ofll_eq (lattice_int %s %s %s %s %s) %s" % (natlit(nb), natlit(case["dim"]), _fl(st.get("random", [])), _fl(lo), _fl(hi), expected)
        if len(nb) != case["dim"] or 0 in nb:
            return None      # a request for zero members is degenerate (ZeroDivisionError, or numpy inf + IndexError later): outside the model
        return "ofll_eq (lattice_points NumF %s %s %s) %s" % (_fl(lo), _fl(hi), _nl(nb), expected)
    if k == "buckshot" and "iv" in st:
        rows = _rows_from_rand(st.get("rand"), case["dim"], case["npts"])
        if rows is None:
            return "false"
        return "fll_eq (sample_points NumF %s %s %s %s) %s" % (_fl(lo), _fl(hi), natlit(case["npts"]), _fll(rows), _fll(st["iv"]))
    return None


def _run_term(case, st, debug=False):
    exp = expected_members(case)
    if "error" in st:
        if exp == 0 and st["error"] == "IndexError":
            return "check_err 0%nat"
        return None
    if st["nslots"] != len(st["members"]) or len(st["iv"]) != st["nslots"]:
        return None
    I = _Intern()
    n = st["nslots"]
    starts = "(%s : list (option nat))" % lst(["(Some %s)" % natlit(I(p)) for p in st["iv"]])
    sched = _nl(st.get("sched") or list(range(n)))
    tagged = st["map"] != "default"
    if st["mode"] == "solve":
        nreal = st["nreal"] if tagged else st["rep"]["all_evals"]
        tbls = [_table(I, st["rep"], nreal)]
        exps = [_expd(I, st["rep"], st["real_total"] if tagged else sum(nreal))]
    else:
        tbls, exps = [], []
        for sp in st["steps"]:
            nreal = sp["nreal"] if tagged else sp["all_evals"]
            tbls.append(_table(I, sp, nreal))
            exps.append(_expd(I, sp, sp["real_total"] if tagged else sum(nreal)))
    if debug:
        return "reports (go (e0 %s) true %s %s (%s : list (list row)))" % (natlit(n), starts, sched, lst(tbls))
    return "check_run %s %s %s (%s : list (list row)) (%s : list expd)" % (natlit(n), starts, sched, lst(tbls), lst(exps))


def coq_terms(case, obs):
    if "__exception__" in obs:
        return []
    k = case["kind"]
    T = []
    if k == "ensemble":
        runs = obs["runs"]
        g = _gen_term(case, runs[0]) if runs else None
        if g:
            T.append(g)
        emitted_step = False
        for st in runs:
            if st["mode"] == "step":
                if emitted_step:
                    continue
                emitted_step = True
            try:
                t = _run_term(case, st)
            except AssertionError:
                t = None      # counts beyond what the unary literals of the Gallina term can carry (thousands of evaluations): oracle only
            if t:
                T.append(t)
        return T
    if k == "wrapper":
        f1 = obs.get("full1", {})
        if "members" not in f1 or "error" in f1 or len(f1["members"]) != expected_members(case) or not f1["members"]:
            return []
        I = _Intern()
        mem = f1["members"]
        x, fval, iters, fcalls, warn, allf = f1["tuple"]
        rows = "(%s : list row)" % lst(["(%s, %s, %s, %s)" % (natlit(I(m["bestX"])), flit(m["bestE"]), natlit(m["evals"]), natlit(n))
                                        for m, n in zip(mem, f1["nreal"])])
        starts = "(%s : list (option nat))" % lst(["(Some %s)" % natlit(1000 + i) for i in range(len(mem))])
        # the tuple does not expose the id of the best member: recompute it with the model and compare the rest
        return ["match go (e0 %s) true %s %s (%s :: nil) with Some e :: nil => (feq (e_energy e) %s && on_eq (e_sol e) (Some %s) "
                "&& Nat.eqb (e_evals e) %s && Nat.eqb (total_evals (e_all e)) %s && Nat.eqb (length (all_logs (e_all e))) %s)%%bool | _ => false end"
                % (natlit(len(mem)), starts, _nl(list(range(len(mem)))), rows, flit(fval), natlit(I(x)), natlit(fcalls), natlit(allf), natlit(f1["real_total"]))]
    if k == "gridpts":
        q = "(%s : list (list Z))" % lst(["(%s : list Z)" % lst(a, zlit) for a in case["q"]])
        got = "None" if "error" in obs else "(Some (%s : list (list Z)))" % lst(["(%s : list Z)" % lst(p, zlit) for p in obs["pts"]])
        T.append("ozll_eq (gridpts_impl %s) %s" % (q, got))
        if case["q"] and "error" not in obs:
            T.append("ozll_eq (Some (gridpts %s)) %s" % (q, got))
        return T
    if k == "randomly_bin":
        got = "None" if "error" in obs else "(Some %s)" % _nl(obs["bins"])
        return ["onatl_eq (randomly_bin PrimFloat.ltb %s %s %s) %s" % (natlit(case["N"]), natlit(case["ndim"]), _fl(obs.get("random", [])), got)]
    if k == "samplepts":
        if case["dist"] or "error" in obs:
            return []
        if case["npts"] == 0:
            return ["fll_eq (sample_points NumF %s %s 0%%nat nil) %s" % (_fl(case["lo"]), _fl(case["hi"]), _fll(obs["pts"]))]
        rows = _rows_from_rand(obs.get("rand"), case["dim"], case["npts"])
        if rows is None:
            return ["false"]
        return ["fll_eq (sample_points NumF %s %s %s %s) %s" % (_fl(case["lo"]), _fl(case["hi"]), natlit(case["npts"]), _fll(rows), _fll(obs["pts"]))]
    if k == "lattice_pts":
        if case["dist"] or "lo_eff" not in obs:
            return []
        nb = case["nbins"]
        got = "None" if "error" in obs else "(Some %s)" % _fll(obs["pts"])
        if not isinstance(nb, int) and 0 in nb:
            return []
        if isinstance(nb, int):
            if "error" in obs:
                return []
            return ["ofll_eq (lattice_int %s %s %s %s %s) %s" % (natlit(nb), natlit(case["dim"]), _fl(obs.get("random", [])), _fl(obs["lo_eff"]), _fl(obs["hi_eff"]), got)]
        return ["ofll_eq (lattice_points NumF %s %s %s) %s" % (_fl(obs["lo_eff"]), _fl(obs["hi_eff"]), _nl(nb), got)]
    return []


def coq_debug(case, obs, k):
    ts = coq_terms(case, obs)
    t = ts[k]
    if t.startswith("check_run "):
        for st in obs["runs"]:
            if _run_term(case, st) == t:
                return _run_term(case, st, debug=True)
    if t.startswith(("ofll_eq (", "fll_eq (", "ozll_eq (", "onatl_eq (")):
        depth, start = 0, t.index("(")
        for i in range(start, len(t)):
            depth += t[i] == "("
            depth -= t[i] == ")"
            if depth == 0:
                return t[start:i + 1]
    return t


# ------------------------------------------------------------------ evidence: input distribution, shrinking

def classify(case, obs):
    k = case["kind"]
    tags = ["kind:" + k]
    nontrivial = False
    if k == "ensemble":
        n = expected_members(case)
        nontrivial = n > 1
        tags += ["solver:" + case["solver"], "nested:" + case["nested"], "dim:%d" % case["dim"], "members:%d" % n,
                 "cost:" + case["cost"]["fam"], "cons:%s" % case.get("cons"), "pen:%s" % case.get("pen"), "term:" + case["term"]["type"],
                 "ranges:%s" % bool(case.get("lo")), "nbins-int:%s" % isinstance(case.get("nbins"), int)]
        if case.get("nested_instance"):
            tags.append("nested-instance")
        for st in obs.get("runs", [])[:1]:
            if "error" in st:
                tags.append("error:" + st["error"])
            else:
                E = st["rep"]["all_bestE"]
                tags.append("tie-at-minimum:%s" % (sum(1 for e in E if e == min(E)) > 1 if E else False))
                tags.append("best-is-last:%s" % (st["rep"]["best_id"] == len(E) - 1))
        for st in obs.get("runs", []):
            tags.append("run:%s/%s" % (st["mode"], st["map"]))
            if st["mode"] == "step" and "steps" in st:
                ids = [sp["best_id"] for sp in st["steps"]]
                tags.append("best-member-changes-during-steps:%s" % (len(set(ids)) > 1))
    elif k == "wrapper":
        nontrivial = expected_members(case) > 1
        tags += ["solver:" + case["solver"], "map:" + case["map"], "step:%s" % case["step"]]
    elif k == "gridpts":
        shape = [len(a) for a in case["q"]]
        nontrivial = len(shape) > 1 and all(n > 0 for n in shape)
        tags += ["axes:%d" % len(shape), "empty-axis:%s" % (0 in shape)]
    else:
        nontrivial = True
        if "error" in obs:
            tags.append("error:" + obs["error"])
        if case.get("dist"):
            tags.append("dist")
    return json.dumps(case, sort_keys=True), nontrivial, tags


def shrink(case):
    k = case["kind"]
    if k == "ensemble":
        if len(case["runs"]) > 1:
            for r in case["runs"]:
                yield dict(case, runs=[r])
        for key in ("cons", "pen"):
            if case.get(key):
                yield dict(case, **{key: None})
        if case.get("npts", 0) > 1:
            yield dict(case, npts=case["npts"] - 1)
        if isinstance(case.get("nbins"), list):
            for i, n in enumerate(case["nbins"]):
                if n > 1:
                    nb = list(case["nbins"]); nb[i] = n - 1
                    yield dict(case, nbins=nb)
        if case.get("maxfun") and case["maxfun"] > 5:
            yield dict(case, maxfun=5)
    elif k == "gridpts":
        q = case["q"]
        for i in range(len(q)):
            if len(q) > 1:
                yield dict(case, q=q[:i] + q[i + 1:])
            if len(q[i]) > 1:
                yield dict(case, q=q[:i] + [q[i][:-1]] + q[i + 1:])
    elif k in ("samplepts", "fillpts") and case.get("npts", 0) > 1:
        yield dict(case, npts=case["npts"] - 1)
