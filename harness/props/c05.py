"""C05 - Stopping discipline: limits, termination and exit requests are honoured (solver machine; see solver_common.py / solverlib.py)."""
from harness.props import solver_common as SC

ID = "C05"
TITLE = 'Stopping discipline: limits, termination and exit requests are honoured'
PROPS_FILE = "Props/Properties_C05.v"
LEVEL = "proof"
SIZES = {"quick": 800, "thorough": 8000}
PARALLEL = SC.PARALLEL
SHARD = SC.SHARD
COQ_TIMEOUT = SC.COQ_TIMEOUT
RULE = 'scripts rich in SetEvaluationLimits (0,1,2,None, new), terminations (never/VTR/COG/NCOG/And/Or), exit requests, repeated Step/Solve after stops; non-trivial = at least 2 executed iterations'
TRUSTED = SC.TRUSTED
ASSUMPTIONS = SC.ASSUMPTIONS
META = dict(technique='Coq proof (Step/Terminated/SetEvaluationLimits state machine, all algorithms and states) + trace correspondence by vm_compute',
            level_text="Theorems: Terminated's verdict is true of the state; Step begins no iteration when stopped (no evaluation, no record) and only begins one strictly below both limits with no exit request and false termination; Step's message is true of the returned state; new=True limits are relative, others absolute; Solve returns only on a stop message; Solve always returns (C05_solve_terminates: any algorithm whose iteration logs a record stops within generation limit + 3 - len(history) Steps once limits are absolute; premises discharged for both DE solvers, for Nelder-Mead from every non-empty simplex and for Powell whenever the extrapolated point is given; with a generation limit of 0 the first Step already reports the stop, for every algorithm). Correspondence compares messages and counters after every op over limit pairs incl. 0/1/None.",
            level_note='Trusted: Coq kernel+VM; harness (generators, instrumentation of /repo from outside, printers, oracles). User cost/constraints/penalty, DE trial vectors, Nelder-Mead candidate points, argsort permutation and post-decoration populations are oracle inputs (recorded in the correspondence, universally quantified in theorems). Powell: line-search probes and the returned index are oracle inputs. Tight / clip=True range modes: the composite constraints.and_(constraints, bounds) is a recorded table. Not in the machine model (oracle only): ensembles, clip=False ranges. No NaN energies.',
            design_ref="5/C05")

_generate = SC.make_generate(**dict(nops=(4, 12), p_mid=0.8))
generate, run_impl, oracle = SC.with_extras(_generate, SC.run_impl, SC.oracle_c05, {"wrapper": (0.1, SC.gen_wrapper, SC.run_wrapper, SC.oracle_wrapper)})
coq_preamble = SC.coq_preamble
coq_terms = SC.make_coq_terms('(mk_mask false false true false false true false false)')
coq_debug = SC.coq_debug
classify = SC.classify
shrink = SC.shrink
