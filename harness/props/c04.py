"""C04 - Best-so-far never worsens; counters, monitors and callbacks are faithful (solver machine; see solver_common.py / solverlib.py)."""
from harness.props import solver_common as SC

ID = "C04"
TITLE = 'Best-so-far never worsens; counters, monitors and callbacks are faithful'
PROPS_FILE = "Props/Properties_C04.v"
LEVEL = "proof"
SIZES = {"quick": 700, "thorough": 8000}
PARALLEL = SC.PARALLEL
SHARD = SC.SHARD
COQ_TIMEOUT = SC.COQ_TIMEOUT
RULE = 'as C01 with monitor installation/replacement mid-run, callbacks, Finalize, second Solve; non-trivial = at least 2 executed iterations'
TRUSTED = SC.TRUSTED
ASSUMPTIONS = SC.ASSUMPTIONS
META = dict(technique='Coq proof (counter/monitor invariants for every algorithm and op sequence; DE history monotonicity) + trace correspondence by vm_compute',
            level_text="Theorems: counter = number of real calls and evaluation monitor = latest real calls in order, after ANY op sequence, for every algorithm that leaves the counter to the cost wrapper (DE, Nelder-Mead); DE history non-increasing with last entry = reported best, one record per generation; Nelder-Mead: last step-monitor record = reported best in every clean run, and (C04_nm_history) the best-energy history is non-increasing with last entry = reported best after every clean op sequence incl. mid-run reconfiguration, for every simplex size; Powell: last energy-history entry = reported best. DE2's recomputed counter is refuted by witness (known findings). Correspondence compares counters, histories, monitor contents and callback arguments after every op.",
            level_note='Trusted: Coq kernel+VM; harness (generators, instrumentation of /repo from outside, printers, oracles). User cost/constraints/penalty, DE trial vectors, Nelder-Mead candidate points, argsort permutation and post-decoration populations are oracle inputs (recorded in the correspondence, universally quantified in theorems). Powell: line-search probes and the returned index are oracle inputs. Tight / clip=True range modes: the composite constraints.and_(constraints, bounds) is a recorded table. Not in the machine model (oracle only): ensembles, clip=False ranges. No NaN energies.',
            design_ref="5/C04")

_generate = SC.make_generate(**dict(allow_vector=True))
_oracle = SC.oracle_c04
generate, run_impl, oracle = SC.with_extras(_generate, SC.run_impl, _oracle, {"collapse": (0.12, SC.gen_collapse, SC.run_collapse, SC.oracle_collapse), "wrapper": (0.08, SC.gen_wrapper, SC.run_wrapper, SC.oracle_wrapper),
                                                                                 "restart": (0.06, SC.gen_restart, SC.run_restart, SC.oracle_restart)})
coq_preamble = SC.coq_preamble
coq_terms = SC.make_coq_terms('(mk_mask false true true true true false true true)')
coq_debug = SC.coq_debug
classify = SC.classify
shrink = SC.shrink
