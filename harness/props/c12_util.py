"""C12 helpers: an independent parser / exact interpreter for mystic's constraint text, printers to the Gallina AST of
coq/Pure/SymExpr.v, sample-point generation, and the z3 search for a distinguishing point.

AST (plain tuples, JSON-able after to_json):
  ('c', Fraction) | ('v', index) | ('neg', a) | ('+', a, b) | ('-', a, b) | ('*', a, b) | ('/', a, b) | ('pow', a, k)
relation: (lhs, cmp, rhs) with cmp in '<','<=','=','!=','>=','>'
A decimal literal denotes the rational it spells (Fraction('0.1') = 1/10).
"""
import re, os, json, subprocess
from fractions import Fraction

CMPS = ("<=", ">=", "!=", "==", "<", ">", "=")
_TOK = re.compile(r"\s*(?:(\d+\.\d*(?:[eE][+-]?\d+)?|\.\d+(?:[eE][+-]?\d+)?|\d+(?:[eE][+-]?\d+)?)|([A-Za-z_][A-Za-z_0-9]*)|(\*\*|[-+*/()]))")


class ParseError(ValueError):
    pass


def tokenize(s):
    s = s.strip()
    pos, out = 0, []
    while pos < len(s):
        m = _TOK.match(s, pos)
        if not m:
            raise ParseError("bad token at %r" % s[pos:pos + 12])
        if m.group(1) is not None:
            out.append(("num", m.group(1)))
        elif m.group(2) is not None:
            out.append(("id", m.group(2)))
        else:
            out.append(("op", m.group(3)))
        pos = m.end()
    return out


class _P:
    """python's arithmetic grammar: sum > term > unary > power > atom"""
    def __init__(self, toks, varindex):
        self.t, self.i, self.vi = toks, 0, varindex

    def peek(self):
        return self.t[self.i] if self.i < len(self.t) else (None, None)

    def take(self):
        tok = self.peek(); self.i += 1; return tok

    def sum(self):
        a = self.term()
        while self.peek() in (("op", "+"), ("op", "-")):
            op = self.take()[1]
            b = self.term()
            a = (op, a, b)
        return a

    def term(self):
        a = self.unary()
        while self.peek() in (("op", "*"), ("op", "/")):
            op = self.take()[1]
            b = self.unary()
            a = (op, a, b)
        return a

    def unary(self):
        if self.peek() == ("op", "-"):
            self.take(); return ("neg", self.unary())
        if self.peek() == ("op", "+"):
            self.take(); return self.unary()
        return self.power()

    def power(self):
        a = self.atom()
        if self.peek() == ("op", "**"):
            self.take()
            neg = False
            if self.peek() == ("op", "-"):
                self.take(); neg = True
            k, v = self.take()
            if k != "num" or not re.fullmatch(r"\d+", v):
                raise ParseError("only natural exponents")
            if neg:
                return ("/", ("c", Fraction(1)), ("pow", a, int(v)))
            return ("pow", a, int(v))
        return a

    def atom(self):
        k, v = self.take()
        if k == "num":
            return ("c", Fraction(v))
        if k == "id":
            if v not in self.vi:
                raise ParseError("unknown name %r" % v)
            return ("v", self.vi[v])
        if (k, v) == ("op", "("):
            a = self.sum()
            if self.take() != ("op", ")"):
                raise ParseError("missing )")
            return a
        raise ParseError("unexpected %r" % (v,))


def parse_expr(s, varindex):
    p = _P(tokenize(s), varindex)
    a = p.sum()
    if p.i != len(p.t):
        raise ParseError("trailing text in %r" % s)
    return a


def split_cmp(line):
    hits = [line.find(d) for d in CMPS if line.find(d) >= 0]
    if not hits:
        raise ParseError("no comparator in %r" % line)
    first = min(hits)
    for d in CMPS:   # CMPS lists two-character comparators first: longest match at the first comparator position
        if line.startswith(d, first):
            return line[:first], ("=" if d == "==" else d), line[first + len(d):]
    raise ParseError("no comparator in %r" % line)


def parse_rel(line, varindex):
    l, c, r = split_cmp(line)
    if any(d in r for d in ("<", ">", "=")):
        raise ParseError("two comparators in %r" % line)
    return (parse_expr(l, varindex), c, parse_expr(r, varindex))


def parse_sys(text, varindex):
    """multi-line text -> list of relations (blank lines skipped)"""
    return [parse_rel(ln, varindex) for ln in text.split("\n") if ln.strip()]


def varindex_for(variables, nmax=12):
    """'x' -> {'x0':0,...}; list of names -> position"""
    if isinstance(variables, str):
        return {"%s%d" % (variables, i): i for i in range(nmax)}
    return {n: i for i, n in enumerate(variables)}


# ------------------------------------------------------------------ exact evaluation

class Undefined(Exception):
    pass


def ev(e, pt):
    k = e[0]
    if k == "c":
        return e[1]
    if k == "v":
        return pt[e[1]]
    if k == "neg":
        return -ev(e[1], pt)
    if k == "pow":
        return ev(e[1], pt) ** e[2]
    a, b = ev(e[1], pt), ev(e[2], pt)
    if k == "+":
        return a + b
    if k == "-":
        return a - b
    if k == "*":
        return a * b
    if k == "/":
        if b == 0:
            raise Undefined()
        return a / b
    raise ValueError(k)


def cmp_holds(c, a, b):
    return {"<": a < b, "<=": a <= b, "=": a == b, "!=": a != b, ">=": a >= b, ">": a > b}[c]


def holds(rel, pt):
    """defined and true (python would raise ZeroDivisionError on an undefined side: not satisfied)"""
    try:
        return cmp_holds(rel[1], ev(rel[0], pt), ev(rel[2], pt))
    except Undefined:
        return False


def margin(rel, pt):
    """relative distance from the boundary of one relation at a point (None if undefined)"""
    try:
        a, b = ev(rel[0], pt), ev(rel[2], pt)
    except Undefined:
        return None
    scale = _scale_of(rel[0], pt) + _scale_of(rel[2], pt) + 1
    return abs(a - b) / scale


def _scale_of(e, pt):
    """sum of the magnitudes of the summands (so that cancellation between huge terms counts as 'near the boundary')"""
    if e[0] in ("+", "-"):
        return _scale_of(e[1], pt) + _scale_of(e[2], pt)
    if e[0] == "neg":
        return _scale_of(e[1], pt)
    return abs(ev(e, pt))


def holds_sys(sys_, pt):
    return all(holds(r, pt) for r in sys_)


def holds_cases(cases, pt):
    return any(holds_sys(s, pt) for s in cases)


# ------------------------------------------------------------------ linear normal form (python side, Fractions)

def linearize(e):
    """-> (dict var->coef, const) or None if not syntactically linear"""
    k = e[0]
    if k == "c":
        return ({}, e[1])
    if k == "v":
        return ({e[1]: Fraction(1)}, Fraction(0))
    if k == "neg":
        a = linearize(e[1])
        return None if a is None else _scale(a, Fraction(-1))
    if k == "pow":
        if e[2] == 0:
            return ({}, Fraction(1))
        if e[2] == 1:
            return linearize(e[1])
        a = linearize(e[1])
        if a is None or a[0]:
            return None
        return ({}, a[1] ** e[2])
    a, b = linearize(e[1]), linearize(e[2])
    if a is None or b is None:
        return None
    if k == "+":
        return _add(a, b)
    if k == "-":
        return _add(a, _scale(b, Fraction(-1)))
    if k == "*":
        if not a[0]:
            return _scale(b, a[1])
        if not b[0]:
            return _scale(a, b[1])
        return None
    if k == "/":
        if b[0] or b[1] == 0:
            return None
        return _scale(a, 1 / b[1])
    raise ValueError(k)


def _scale(a, k):
    return ({v: c * k for v, c in a[0].items()}, a[1] * k)


def _add(a, b):
    d = dict(a[0])
    for v, c in b[0].items():
        d[v] = d.get(v, 0) + c
    return (d, a[1] + b[1])


def divisors(e, acc=None):
    """all divisor sub-expressions"""
    acc = [] if acc is None else acc
    if e[0] in ("c", "v"):
        return acc
    if e[0] in ("neg", "pow"):
        return divisors(e[1], acc)
    if e[0] == "/":
        acc.append(e[2])
    divisors(e[1], acc); divisors(e[2], acc)
    return acc


def vars_of(e, acc=None):
    acc = set() if acc is None else acc
    if e[0] == "v":
        acc.add(e[1])
    elif e[0] == "c":
        pass
    elif e[0] in ("neg", "pow"):
        vars_of(e[1], acc)
    else:
        vars_of(e[1], acc); vars_of(e[2], acc)
    return acc


def sys_vars(rels):
    s = set()
    for r in rels:
        vars_of(r[0], s); vars_of(r[2], s)
    return s


# ------------------------------------------------------------------ JSON <-> AST

def to_json(e):
    if e[0] == "c":
        return ["c", str(e[1])]
    if e[0] == "v":
        return ["v", e[1]]
    if e[0] == "pow":
        return ["pow", to_json(e[1]), e[2]]
    return [e[0]] + [to_json(x) for x in e[1:]]


def from_json(j):
    if j[0] == "c":
        return ("c", Fraction(j[1]))
    if j[0] == "v":
        return ("v", int(j[1]))
    if j[0] == "pow":
        return ("pow", from_json(j[1]), int(j[2]))
    return tuple([j[0]] + [from_json(x) for x in j[1:]])


# ------------------------------------------------------------------ Gallina printers (AST of Pure/SymExpr.v)

def q(fr):
    fr = Fraction(fr)
    return "(%d # %d)" % (fr.numerator, fr.denominator)


def coq_expr(e):
    k = e[0]
    if k == "c":
        return "(Cst %s)" % q(e[1])
    if k == "v":
        return "(Var %d)" % e[1]
    if k == "neg":
        return "(Neg %s)" % coq_expr(e[1])
    if k == "pow":
        return "(Pow %s %d)" % (coq_expr(e[1]), e[2])
    name = {"+": "Add", "-": "Sub", "*": "Mul", "/": "Div"}[k]
    return "(%s %s %s)" % (name, coq_expr(e[1]), coq_expr(e[2]))


COQ_CMP = {"<": "Lt", "<=": "Le", "=": "Eq", "!=": "Ne", ">=": "Ge", ">": "Gt"}


def coq_rel(r):
    return "(Rel %s %s %s)" % (coq_expr(r[0]), COQ_CMP[r[1]], coq_expr(r[2]))


def coq_sys(rels):
    return "([%s] : sys)" % "; ".join(coq_rel(r) for r in rels) if rels else "([] : sys)"


def coq_cases(cases):
    return "([%s] : cases)" % "; ".join(coq_sys(s) for s in cases) if cases else "([] : cases)"


def coq_qlist(xs):
    return "([%s] : list Q)" % "; ".join(q(x) for x in xs) if xs else "([] : list Q)"


# ------------------------------------------------------------------ sample points

GRID = [Fraction(k, 4) for k in range(-12, 13)]


def boundary_points(rels, nv, rng, per_rel=3):
    """points lying exactly on the boundary of a linear relation (solve the line for one variable at a random
    base point), plus the same point nudged to either side by a tiny and a moderate amount"""
    pts = []
    for r in rels:
        la, lb = linearize(r[0]), linearize(r[2])
        if la is None or lb is None:
            continue
        d = _add(la, _scale(lb, Fraction(-1)))
        vs = [v for v, c in d[0].items() if c != 0 and v < nv]
        if not vs:
            continue
        for _ in range(per_rel):
            base = [rng.choice(GRID) for _ in range(nv)]
            v = rng.choice(vs)
            rest = sum(c * base[w] for w, c in d[0].items() if w != v and w < nv) + d[1]
            base[v] = -rest / d[0][v]
            pts.append(list(base))
            for eps in (Fraction(1, 10**12), Fraction(1, 8)):
                for sgn in (1, -1):
                    p2 = list(base); p2[v] = base[v] + sgn * eps
                    pts.append(p2)
    return pts


def zero_points(rels, nv, rng, per=4):
    """points where a variable occurring in a divisor is 0 / tiny of either sign"""
    pts = []
    dv = set()
    for r in rels:
        for side in (r[0], r[2]):
            for dvs in divisors(side):
                dv |= vars_of(dvs)
    for v in sorted(dv):
        if v >= nv:
            continue
        for _ in range(per):
            base = [rng.choice(GRID) for _ in range(nv)]
            for val in (Fraction(0), Fraction(1, 10**9), Fraction(-1, 10**9), Fraction(1, 2), Fraction(-1, 2)):
                p2 = list(base); p2[v] = val
                pts.append(p2)
    return pts


def sample_points(in_rels, out_cases, nv, rng, n_random=24):
    pts = []
    allrels = list(in_rels) + [r for s in out_cases for r in s]
    pts += boundary_points(in_rels, nv, rng)
    pts += boundary_points([r for s in out_cases for r in s], nv, rng, per_rel=2)
    pts += zero_points(allrels, nv, rng)
    # every variable set to 0 in turn (a divisor introduced by the rewriting may involve any of them)
    for v in range(nv):
        for _ in range(2):
            base = [rng.choice(GRID) for _ in range(nv)]
            base[v] = Fraction(0)
            pts.append(base)
    for _ in range(n_random):
        pts.append([rng.choice(GRID) for _ in range(nv)])
    for _ in range(n_random // 2):
        pts.append([Fraction(rng.randint(-10**6, 10**6), rng.choice([1, 3, 7, 1000, 10**6])) for _ in range(nv)])
    pts.append([Fraction(0)] * nv)
    return pts


# ------------------------------------------------------------------ z3 (python3-vt) search for a distinguishing point

_Z3_SCRIPT = r'''
import sys, json
from fractions import Fraction
import z3
job = json.load(sys.stdin)
nv = job["nv"]
X = [z3.Real("x%d" % i) for i in range(nv)]
def q(s):
    f = Fraction(s); return z3.RealVal(f.numerator) / z3.RealVal(f.denominator)
def ex(e, defs):
    k = e[0]
    if k == "c": return q(e[1])
    if k == "v": return X[e[1]]
    if k == "neg": return -ex(e[1], defs)
    if k == "pow":
        a = ex(e[1], defs); r = z3.RealVal(1)
        for _ in range(e[2]): r = r * a
        return r
    a, b = ex(e[1], defs), ex(e[2], defs)
    if k == "+": return a + b
    if k == "-": return a - b
    if k == "*": return a * b
    if k == "/":
        defs.append(b != 0); return a / b
    raise ValueError(k)
def rel(r):
    defs = []
    a, b = ex(r[0], defs), ex(r[2], defs)
    c = {"<": a < b, "<=": a <= b, "=": a == b, "!=": a != b, ">=": a >= b, ">": a > b}[r[1]]
    return z3.And(*(defs + [c]))
def sys_(s): return z3.And(*[rel(r) for r in s]) if s else z3.BoolVal(True)
inp = sys_(job["input"])
out = z3.Or(*[sys_(s) for s in job["cases"]]) if job["cases"] else z3.BoolVal(False)
s = z3.Solver(); s.set("timeout", 20000)
s.add(z3.Xor(inp, out))
r = s.check()
if r == z3.sat:
    m = s.model()
    pt = []
    for x in X:
        v = m.eval(x, model_completion=True)
        try:
            pt.append(str(Fraction(v.numerator_as_long(), v.denominator_as_long())))
        except Exception:
            pt.append(str(Fraction(v.approx(30).numerator_as_long(), v.approx(30).denominator_as_long())))
    print(json.dumps({"status": "sat", "point": pt}))
else:
    print(json.dumps({"status": str(r)}))
'''


def z3_distinguish(in_rels, out_cases, nv, timeout=40):
    """returns ('sat', point as list of Fraction) | ('unsat', None) | ('unknown'/'error', text)"""
    job = dict(nv=nv, input=[[to_json(r[0]), r[1], to_json(r[2])] for r in in_rels],
               cases=[[[to_json(r[0]), r[1], to_json(r[2])] for r in s] for s in out_cases])
    try:
        p = subprocess.run(["python3-vt", "-c", _Z3_SCRIPT], input=json.dumps(job), capture_output=True, text=True,
                           timeout=timeout, env={k: v for k, v in os.environ.items() if k not in ("PYTHONPATH", "PYTHONHOME")})
    except Exception as e:
        return "error", repr(e)
    if p.returncode != 0:
        return "error", (p.stderr or "")[-400:]
    try:
        j = json.loads(p.stdout.strip().splitlines()[-1])
    except Exception:
        return "error", p.stdout[-300:]
    if j["status"] == "sat":
        return "sat", [Fraction(s) for s in j["point"]]
    return j["status"], None
