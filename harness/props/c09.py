"""C09 - ensemble solvers return the best member and account for all work (lattice / buckshot / sparsity + point generators)."""
import itertools, json, math, random as _random, threading
from harness.coqio import flit, natlit, zlit, lst, opt, blit
from harness.props import c09_util as U

ID = "C09"
TITLE = "Ensemble solvers return the best member and account for all work"
PROPS_FILE = "Props/Properties_C09.v"
LEVEL = "proof"
SIZES = {"quick": 600, "thorough": 3000}
PARALLEL = True
SHARD = 120
COQ_TIMEOUT = 900
EXHAUSTIVE = {"quick": False, "thorough": False}
RULE = ("cases: kind in {ensemble (class API: Lattice/Buckshot/Sparsity x nested NelderMead/Powell, dims 1-3, bin layouts with 1s and "
        "primes or an integer bin total, npts 1-8, strict ranges on a dyadic grid or none, evaluation/iteration limits <= 50, "
        "VTR/COG/NCOG termination, optional idempotent constraint and penalty, 5 recorded cost families incl. constant and coarse "
        "tie-heavy ones; a fifth of the cases use nested DifferentialEvolutionSolver/DifferentialEvolutionSolver2 members (NP 4-6); every case is run as Solve under the builtin map and under serial/reversed/shuffled/thread-pool maps and as a "
        "Step loop under two maps), wrapper (lattice/buckshot/sparsity one-liners vs the class API), gridpts (thorough: ALL shapes with "
        "<=4 axes of 0-4 bins), lattice_pts, samplepts, randomly_bin, fillpts}; non-trivial = more than one member / point; "
        "distinct = distinct case JSON")
TRUSTED = ["real-number axioms of Coq's standard library (Reals) for the two arithmetic theorems (lattice cell, sample range)",
           "member solvers are abstract in the model (a member = its recorded best solution / energy / counter / call log); they are the subject of C01-C05",
           "solution vectors are interned to integers before they are handed to the (polymorphic) reduction model; start points are compared bit-exactly as binary64"]
ASSUMPTIONS = ["IEEE rounding at the end points of a lattice cell / sample range is modelled (bit-exact execution), not verified: the two inequalities are proved over R",
               "process-based maps (members returned as copies) are not exercised; schedules are modelled as permutations of the evaluation order",
               "fillpts (an optimisation loop around diffev) and Distribution-perturbed start points are checked by the oracle only (stay within ranges)",
               "NaN energies excluded (strict weak order hypothesis)"]
META = dict(
    technique="Coq proof (fold invariants over the member list, induction over axes) + model/implementation correspondence by vm_compute",
    level_text=("The reduction to the best member (exact tie rule: the LAST minimal member), the hand-back of its solution/energy/counter, "
                "the counters as sums, member creation from one configured solver, schedule independence of the map, gridpts = "
                "lexicographic Cartesian product (length, membership, order, NoDup), the as-written gridpts loop = that product on "
                "non-empty axes, randomly_bin's product, lattice centres inside their own cell and samples inside their range are "
                "theorems about the Gallina model for all sizes; the model is tied to mystic on every run by executing both on generated ensembles."),
    level_note=("Trusted: Coq kernel+VM, harness printers/oracles; member solvers abstract; arithmetic theorems over R (stdlib real axioms)."),
    design_ref="5/C09")

_fail = U.fail


# ------------------------------------------------------------------ generators

_LO = [-2.0, -1.0, -0.5, 0.0, 0.0, 0.25, 1.0]
_W = [0.5, 1.0, 1.0, 2.0, 3.0, 1.5]
_BINS = [1, 1, 2, 2, 3, 3, 4, 5, 7]


def _box(rng, dim):
    lo = [rng.choice(_LO) for _ in range(dim)]
    hi = [l + rng.choice(_W) for l in lo]
    return lo, hi


def _costspec(rng, lo, hi):
    fam = rng.choice(["quad", "abs", "coarse", "coarse", "const", "cmax"])
    c = []
    for l, h in zip(lo, hi):
        t = rng.choice([0.25, 0.5, 0.5, 0.75, 0.0, 1.0, 1.5, -0.25])
        c.append(l + t * (h - l))
    return dict(fam=fam, c=c, q=rng.choice([1, 2, 4]))


def _ensemble_case(rng, tier):
    solver = rng.choice(["lattice", "lattice", "buckshot", "buckshot", "sparsity"])
    dim = rng.choice([1, 2, 2, 2, 3])
    case = dict(kind="ensemble", solver=solver, dim=dim, nested=rng.choice(["NM", "NM", "Powell", "DE", "DE2"]), seed=rng.randrange(10**6))
    if case["nested"] in ("DE", "DE2"):
        case["NP"] = rng.choice([4, 5, 6])
    if solver == "lattice":
        if rng.random() < 0.2:
            case["nbins"] = rng.choice([1, 2, 3, 4, 5, 6, 7, 8])
        else:
            nb = [rng.choice(_BINS) for _ in range(dim)]
            while math.prod(nb) > 8:
                nb[nb.index(max(nb))] = rng.choice([1, 2])
            if rng.random() < 0.04:
                nb[rng.randrange(dim)] = 0
            case["nbins"] = nb
    else:
        case["npts"] = rng.choice([1, 2, 2, 3, 3, 4, 5, 6, 8] + ([0] if rng.random() < 0.3 else []))
        if solver == "sparsity":
            case["npts"] = min(case["npts"], 4)
            case["rtol"] = rng.choice([None, None, 0.25, -0.25])
    if rng.random() < 0.9:
        case["lo"], case["hi"] = _box(rng, dim)
    else:
        case["lo"] = case["hi"] = None
    lo, hi = (case["lo"], case["hi"]) if case["lo"] else ([-1.0] * dim, [1.0] * dim)
    case["cost"] = _costspec(rng, lo, hi)
    case["maxfun"] = rng.choice([None, 5, 10, 20, 30, 50, 50])
    case["maxiter"] = rng.choice([None, None, 1, 3, 8]) if case["maxfun"] else rng.choice([1, 2, 4, 8])
    t = rng.choice(["VTR", "VTR", "COG", "NCOG", "default"])
    case["term"] = dict(type=t, tol=rng.choice([0.0, 0.25, 0.5, 1e-3]) if t == "VTR" else rng.choice([1e-6, 1e-2]), gen=rng.choice([2, 4]))
    case["cons"] = rng.choice([None, None, "round", "pin"]) if case["lo"] else None
    case["pen"] = rng.choice([None, None, "lin", "quad"])
    others = ["ser", "rev", "shuf", "thr"]
    case["runs"] = [["solve", "default"]] + [["solve", m] for m in others] + [["step", "default"], ["step", rng.choice(others)]]
    if solver == "sparsity" and tier == "quick":      # fillpts is the expensive part: fewer repetitions
        case["runs"] = [["solve", "default"], ["solve", rng.choice(others)], ["step", rng.choice(others)]]
    if case["nested"] in ("DE", "DE2"):
        # the members draw from the global RNG on every Step: only deterministic (single-threaded) maps, several Steps
        case["runs"] = [["solve", "default"], ["solve", rng.choice(["ser", "rev", "shuf"])], ["step", "default"], ["step", rng.choice(["ser", "rev", "shuf"])]]
        if case["maxfun"] is None:
            case["maxfun"] = 50
        case["maxiter"] = rng.choice([None, 3, 6, 8])
    if rng.random() < 0.08 and case["lo"] and solver != "buckshot":
        case["dist"] = True                # SetDistribution: perturbed start points (may leave the box; members clip them back)
    if rng.random() < 0.07 and case["lo"] and not case.get("dist"):
        case["nested_instance"] = True     # a configured solver INSTANCE as nested solver (ensemble settings are not applied)
    if rng.random() < 0.25 and case["lo"] and not case.get("dist") and not case.get("nested_instance"):
        case["rmode"] = rng.choice([[True, None], [None, True], [True, True]])
    if rng.random() < 0.5:
        case["loop"] = True        # step-wise runs ask Terminated() before every Step (also before the first one)
    if rng.random() < 0.15 and not case.get("nested_instance"):
        case["legacy_evals"] = rng.choice([1, 3, 7])   # the ensemble is given an evaluation monitor that already holds records of an earlier run
    return case


def _wrapper_case(rng):
    solver = rng.choice(["lattice", "buckshot", "sparsity"])
    dim = rng.choice([1, 2, 2, 3])
    case = dict(kind="wrapper", solver=solver, dim=dim, nested=rng.choice(["NM", "Powell", None]), seed=rng.randrange(10**6))
    if solver == "lattice":
        nb = [rng.choice([1, 2, 2, 3]) for _ in range(dim)]
        while math.prod(nb) > 8:
            nb[nb.index(max(nb))] = 1
        case["arg"] = nb if rng.random() < 0.8 else rng.choice([1, 2, 4, 6])
    else:
        case["arg"] = rng.choice([1, 2, 3, 4]) if solver == "sparsity" else rng.choice([1, 2, 3, 5, 8])
    case["lo"], case["hi"] = _box(rng, dim)
    case["cost"] = _costspec(rng, case["lo"], case["hi"])
    case["maxfun"] = rng.choice([5, 10, 25, 50])
    case["maxiter"] = rng.choice([None, None, 2, 6])
    case["ftol"] = rng.choice([1e-4, 1e-2])
    case["gtol"] = rng.choice([2, 10, None])
    case["cons"] = rng.choice([None, None, "round"])
    case["pen"] = rng.choice([None, None, "lin"])
    case["map"] = rng.choice(["default", "ser", "rev", "thr"])
    case["step"] = rng.random() < 0.3
    return case


def _gridpts_case(rng):
    nax = rng.choice([1, 2, 2, 3, 3, 4])
    shape = [rng.choice([0, 1, 1, 2, 2, 3, 4]) if rng.random() < 0.2 else rng.choice([1, 2, 3, 4]) for _ in range(nax)]
    if rng.random() < 0.03:
        shape = []
    dup = rng.random() < 0.25
    q = [[(rng.randrange(3) if dup else 10 * a + k) for k in range(n)] for a, n in enumerate(shape)]
    return dict(kind="gridpts", q=q)


def all_gridpts_shapes():
    for nax in (1, 2, 3, 4):
        for shape in itertools.product(range(5), repeat=nax):
            yield dict(kind="gridpts", q=[[10 * a + k for k in range(n)] for a, n in enumerate(shape)])


def _pts_case(rng, kind):
    dim = rng.choice([1, 2, 2, 3, 4])
    lo = [rng.choice(_LO + [0.1, -0.3, 1e-3]) for _ in range(dim)]
    hi = [l + rng.choice(_W + [0.0, 0.7, 1e-3, 10.0]) for l in lo]
    case = dict(kind=kind, dim=dim, lo=lo, hi=hi, seed=rng.randrange(10**6))
    if kind == "lattice_pts":
        if rng.random() < 0.25:
            case["nbins"] = rng.choice([1, 2, 3, 4, 6, 7, 8, 9, 12, 16, 30])
        else:
            nb = [rng.choice([1, 1, 2, 3, 4, 5, 7, 11]) for _ in range(dim)]
            while math.prod(nb) > 400:
                nb[nb.index(max(nb))] = 2
            if rng.random() < 0.05:
                nb[rng.randrange(dim)] = 0
            case["nbins"] = nb
        case["bounded"] = rng.random() < 0.85
        case["dist"] = rng.random() < 0.1
    elif kind == "samplepts":
        case["npts"] = rng.choice([0, 1, 2, 3, 5, 8, 17])
        case["dist"] = rng.random() < 0.2
        if case["dist"]:       # the N(0, 0.35) distribution must be able to land strictly inside every range
            case["lo"] = [rng.choice([-1.0, -0.5, -0.25]) for _ in range(dim)]
            case["hi"] = [rng.choice([0.25, 0.5, 1.0, 3.0]) for _ in range(dim)]
    else:   # fillpts
        case["dim"] = dim = min(dim, 3)
        case["lo"], case["hi"] = lo[:dim], [l + rng.choice(_W) for l in lo[:dim]]
        case["npts"] = rng.choice([1, 2, 3])
        case["rtol"] = rng.choice([None, 0.3, -0.3, 0.05])
        r = _random.Random(case["seed"])
        case["data"] = [[l + r.random() * (h - l) for l, h in zip(case["lo"], case["hi"])] for _ in range(rng.choice([0, 1, 3]))] or None
        case["dist"] = rng.random() < 0.15
    return case


def _rbin_case(rng):
    return dict(kind="randomly_bin", N=rng.choice(list(range(1, 33)) + [36, 45, 49, 60, 64, 97, 100, 121, 128]),
                ndim=rng.choice([1, 2, 2, 3, 3, 4, 5]), seed=rng.randrange(10**6))


def generate(rng, n, tier):
    if tier == "thorough":
        for c in all_gridpts_shapes():
            yield c
    ne = max(8, int(n * 0.36))
    nw = max(4, int(n * 0.07))
    nf = max(3, int(n * 0.03))
    rest = max(0, n - ne - nw - nf)
    kinds = ["gridpts"] * 3 + ["lattice_pts"] * 3 + ["samplepts"] * 2 + ["randomly_bin"] * 2
    for _ in range(ne):
        yield _ensemble_case(rng, tier)
    for _ in range(nw):
        yield _wrapper_case(rng)
    for _ in range(nf):
        yield _pts_case(rng, "fillpts")
    for _ in range(rest):
        k = rng.choice(kinds)
        if k == "gridpts":
            yield _gridpts_case(rng)
        elif k == "randomly_bin":
            yield _rbin_case(rng)
        else:
            yield _pts_case(rng, k)


# thorough: the gridpts sub-domain (all shapes with <= 4 axes of 0..4 bins) is swept exhaustively; the other kinds are sampled,
# so the evidence does not claim an exhaustive exploration


def run_impl(case):
    return U.run_impl(case)


def oracle(case, obs):
    return U.oracle(case, obs)


def coq_preamble():
    return U.PREAMBLE


def coq_terms(case, obs):
    return U.coq_terms(case, obs)


def coq_debug(case, obs, k):
    return U.coq_debug(case, obs, k)


def classify(case, obs):
    return U.classify(case, obs)


def shrink(case):
    return U.shrink(case)
