"""Shared machinery of the solver-API properties C01-C05: script generation, execution, oracles, Coq terms."""
import json, math
from harness import solverlib as L, solvergen as G

PARALLEL = True
SHARD = 40
COQ_TIMEOUT = 1200
MAX_TERM_CHARS = 1500000
MAX_MODEL_ITERS = 400
TRUSTED = [
    "user cost / constraints / penalty are recorded tables in the correspondence run and universally quantified section variables in the theorems",
    "the trial vectors of the DE strategies, the Nelder-Mead candidate points, numpy.argsort's permutation and the population after (re)decoration are oracle inputs of the machine model (recorded from /repo in the correspondence; arbitrary in the theorems); their arithmetic is the subject of C08",
    "tight / clip=True modes of SetStrictRanges: the function the solvers apply wherever they apply the constraints (constraints.and_ of the user's constraints and the bounds function) is recorded as the constraints table of that configuration (machine op OSetRangesCons); and_ itself is C17's model; clip=False (random re-draws) and pins that conflict with the box (and_ randomises) are covered by the oracle only",
]
ASSUMPTIONS = ["no NaN energies (finite-or-infinite energies only)", "in-process map", "the ensemble solvers are covered by the oracle only, not by the machine model (their own model is C09's); Powell's line searches are oracle inputs"]


def make_generate(**kw):
    def generate(rng, n, tier):
        for _ in range(n):
            # one script in six runs Powell
            solvers = ("POW",) if rng.random() < 0.17 else L.SOLVERS
            yield G.gen_script(rng, solvers=solvers, **kw)
    return generate


def run_impl(case):
    return L.run_script(case)


def isfinite(v):
    return v == v and v not in (math.inf, -math.inf)


def fail(clause, site, pattern, detail=None):
    return dict(clause=clause, site=site, pattern=pattern, detail=detail)


# ---- reconstruction of the user functions in force

def _red(name):
    if name == "sum":
        return lambda l: _fold(lambda a, b: a + b, l)
    if name == "max":
        return lambda l: _fold(lambda a, b: a if a >= b else b, l)
    if name == "min":
        return lambda l: _fold(lambda a, b: b if b < a else a, l)
    if name == "sumsq":
        return L._red_sumsq
    return None


def _fold(f, l):
    a = l[0]
    for b in l[1:]:
        a = f(a, b)
    return a


def energy_of_call(case, c):
    """objective value the solver must have obtained from this real call: reduce(cost(x)) + penalty(x)"""
    pen = L.make_pen(case["ops"][c["pen_k"]]["pen"]) if c.get("pen_k") is not None else (lambda x: 0.0)
    p = pen(c["x"])
    y = c["y"]
    if "s" in y:
        return y["s"] + p
    vals = [v + p for v in y["v"]]
    r = _red(c.get("red"))
    if r is None:
        return vals[0] if len(vals) == 1 else None
    return r(vals)


def site_of(case):
    return {"DE": "DifferentialEvolutionSolver", "DE2": "DifferentialEvolutionSolver2", "NM": "NelderMeadSimplexSolver",
            "POW": "PowellDirectionalSolver"}[case["solver"]]


def taint_index(case, out):
    """first op index at which stored members/energies may legitimately be stale w.r.t. the current objective:
    a (re)decoration that modified members without re-evaluating them (finding F9), or a reconfiguration after the first step"""
    first = _first_step(case)
    prev_pop = None
    for k, (op, s, r) in enumerate(zip(case["ops"], out["trace"], out["opres"])):
        if k > first and op["op"] in ("SetObjective", "SetPenalty", "SetConstraints", "SetStrictRanges", "SetReducer",
                                      "SetRandomInitialPoints", "SetInitialPoints", "SetStepMonitor"):
            return k, "after-midrun-reconfiguration"
        for i in r.get("inputs", []):
            if i.get("deco") is not None and prev_pop is not None and k > first and i["deco"] != prev_pop:
                return k, "after-redecoration-changed-members"
        prev_pop = s["pop"]
    return None, None


# ---- C01
def oracle_c01(case, out):
    f = []
    if "__exception__" in out:
        return [fail("no-crash", site_of(case), out["__exception__"], out.get("__msg__"))]
    calls = out["calls"]
    tk, tpat = taint_index(case, out)
    e0 = None
    for k, (op, s) in enumerate(zip(case["ops"], out["trace"])):
        o = op["op"]
        changed_after_first = tk is not None and k >= tk
        sfx = (":" + tpat) if changed_after_first else ""
        if not s["nsm"]:
            continue
        made = [c for c in calls[:s["ncalls"]]]
        if isfinite(s["bestE"]):
            hit = [c for c in made if c["x"] == s["bestX"]]
            if not hit:
                f.append(fail("best_was_evaluated", site_of(case), "best-not-evaluated" + sfx, dict(op=k, bestX=s["bestX"])))
            elif not any(energy_of_call(case, c) == s["bestE"] for c in hit):
                f.append(fail("best_energy_is_cost_plus_penalty", site_of(case), "best-energy-mismatch" + sfx,
                              dict(op=k, bestE=s["bestE"], at=[energy_of_call(case, c) for c in hit][:3])))
        if e0 is None and s["ehist"]:
            e0 = s["ehist"][0]
        if e0 is not None and isfinite(e0) and not (s["bestE"] <= e0) and not changed_after_first:
            f.append(fail("best_le_initial", site_of(case), "best-worse-than-initial", dict(op=k, bestE=s["bestE"], e0=e0)))
        # member energies: every stored finite energy was obtained from a real call (at the member for DE; at the
        # constrained member for Nelder-Mead), for histories without reconfiguration after the first step
        if o in ("Step", "Solve"):
            es = set()
            for c in made:
                e = energy_of_call(case, c)
                if e is not None:
                    es.add((tuple(c["x"]), e))
            for x, e in zip(s["pop"], s["popE"]):
                if not isfinite(e):
                    continue
                if case["solver"] in ("DE", "DE2"):
                    if (tuple(x), e) not in es:
                        f.append(fail("member_energy", site_of(case), "member-energy-not-objective" + sfx, dict(op=k, x=x, e=e)))
                        break
                else:
                    cx = _apply_cons(case, k, x)
                    if cx is not None and (tuple(cx), e) not in es:
                        f.append(fail("member_energy", site_of(case), "member-energy-not-objective" + sfx, dict(op=k, x=x, e=e)))
                        break
    return f


def _current(case, k, name):
    """index of the last op of kind `name` at or before k"""
    idx = None
    for i in range(k + 1):
        if case["ops"][i]["op"] == name:
            idx = i
    return idx


def _apply_cons(case, k, x):
    i = _current(case, k, "SetConstraints")
    b = _current(case, k, "SetStrictRanges")
    if b is not None and case["ops"][b]["lo"] is not None and (case["ops"][b].get("tight") is not None or case["ops"][b].get("clip") is not None):
        return None
    if i is None:
        return list(x)
    return [float(v) for v in L.make_cons(dict(case["ops"][i]["cons"], inplace=False))(list(x))]


# ---- C02
def oracle_c02(case, out):
    f = []
    if "__exception__" in out:
        return [fail("no-crash", site_of(case), out["__exception__"], out.get("__msg__"))]
    for c in out["calls"]:
        if c.get("box") is not None:
            op = case["ops"][c["box"]]
            if any(not (lo <= v <= hi) for v, lo, hi in zip(c["x"], op["lo"], op["hi"])):
                f.append(fail("never_outside", site_of(case), "evaluated-outside-box", dict(x=c["x"], lo=op["lo"], hi=op["hi"])))
                break
    # ranges in force from the first iteration: finite best lies inside
    first = next((k for k, o in enumerate(case["ops"]) if o["op"] in ("Step", "Solve")), None)
    if first is not None:
        b0 = _current(case, first, "SetStrictRanges")
        later = [k for k, o in enumerate(case["ops"]) if k > first and o["op"] == "SetStrictRanges"]
        if b0 is not None and case["ops"][b0]["lo"] is not None and not later:
            op = case["ops"][b0]
            for k, s in enumerate(out["trace"]):
                if k >= first and isfinite(s["bestE"]):
                    if any(not (lo <= v <= hi) for v, lo, hi in zip(s["bestX"], op["lo"], op["hi"])):
                        tk, tpat = taint_index(case, out)
                        sfx = (":" + tpat) if (tk is not None and k >= tk) else ""     # F9: stale energy kept for a moved member
                        f.append(fail("best_inside", site_of(case), "best-outside-box" + sfx, dict(op=k, bestX=s["bestX"], bestE=s["bestE"])))
                        break
            # ... and so does the whole population / simplex the solver keeps (it is clipped into the box when the objective is decorated and only
            # evaluated points replace members), as long as nothing but the default-mode ranges acts on the points (no constraints, no tight / clip mode -
            # there a candidate is stored as proposed and evaluated at its clipped image -, no population re-installed)
            plain = not (op.get("tight") or op.get("clip") is not None) and not any(o["op"] == "SetConstraints" for o in case["ops"]) and \
                not any(o["op"] in ("SetInitialPoints", "SetRandomInitialPoints") for o in case["ops"][first + 1:])
            if plain and not f:
                for k, s in enumerate(out["trace"]):
                    # the INITIAL population / simplex (later members may carry infinite energies and lie anywhere): Nelder-Mead builds its simplex in
                    # the second Step (until then the other vertices are zero placeholders), the others clip theirs in the first
                    if k >= first and case["ops"][k]["op"] == "Step" and s["nstep"] == (2 if case["solver"] == "NM" else 1) and \
                       (k == 0 or out["trace"][k - 1]["nstep"] == s["nstep"] - 1):
                        bad = [x for x in s["pop"] if any(not (lo <= v <= hi) for v, lo, hi in zip(x, op["lo"], op["hi"]))]
                        if bad:
                            f.append(fail("population_inside", site_of(case), "population-member-outside-box", dict(op=k, x=bad[0], lo=op["lo"], hi=op["hi"])))
                            break
    for op, r in zip(case["ops"], out["opres"]):
        if op["op"] == "SetRandomInitialPoints" and op["lo"] is None:
            for x in r["pop"]:     # the documented defaults
                if any(not (-1e3 <= v <= 1e3) for v in x):
                    f.append(fail("initial_points_inside", site_of(case), "initial-point-outside-defaults", dict(x=x)))
                    break
        elif op["op"] == "SetRandomInitialPoints":
            for x in r["pop"]:
                if any(not (lo <= v <= hi) for v, lo, hi in zip(x, op["lo"], op["hi"])):
                    f.append(fail("initial_points_inside", site_of(case), "initial-point-outside", dict(x=x)))
                    break
        elif op["op"] == "SetInitialPoints" and not op.get("how") and r.get("pop"):
            # the guess itself, and the other members within 5% of it coordinate-wise (+-0.05 around a zero coordinate): the limits this call asks for,
            # whatever ranges are set at that moment (the population is clipped into them later, when the objective is decorated)
            rad = 0.05
            lim = [(min(v * (1 - rad), v * (1 + rad)) or -rad, max(v * (1 - rad), v * (1 + rad)) or rad) for v in op["x0"]]
            if r["pop"][0] != [float(v) for v in op["x0"]]:
                f.append(fail("initial_points_inside", site_of(case), "first-member-is-not-the-guess", dict(x0=op["x0"], got=r["pop"][0])))
            else:
                for x in r["pop"][1:]:
                    if any(not (lo <= v <= hi) for v, (lo, hi) in zip(x, lim)):
                        f.append(fail("initial_points_inside", site_of(case), "initial-point-outside-requested-neighbourhood", dict(x=x, x0=op["x0"])))
                        break
    return f


# ---- C03
def oracle_c03(case, out):
    f = []
    if "__exception__" in out:
        return [fail("no-crash", site_of(case), out["__exception__"], out.get("__msg__"))]
    for c in out["calls"]:
        if c.get("cons_k") is not None:
            spec = dict(case["ops"][c["cons_k"]]["cons"], inplace=False)
            cx = [float(v) for v in L.make_cons(spec)(list(c["x"]))]
            if cx != c["x"]:
                f.append(fail("cons_at_every_eval", site_of(case), "evaluated-unconstrained-point", dict(x=c["x"], cons=spec)))
                break
    first = next((k for k, o in enumerate(case["ops"]) if o["op"] in ("Step", "Solve")), None)
    if first is not None:
        c0 = _current(case, first, "SetConstraints")
        later = [k for k, o in enumerate(case["ops"]) if k > first and o["op"] in ("SetConstraints", "SetStrictRanges", "SetInitialPoints", "SetRandomInitialPoints")]
        if c0 is not None and not later:
            spec = dict(case["ops"][c0]["cons"], inplace=False)
            cf = L.make_cons(spec)
            for k, s in enumerate(out["trace"]):
                if k < first or not s["nsm"] or not isfinite(s["bestE"]):
                    continue
                cx = [float(v) for v in cf(list(s["bestX"]))]
                if cx != s["bestX"]:
                    f.append(fail("result_constrained", site_of(case), "best-violates-constraints", dict(op=k, bestX=s["bestX"], cons=spec)))
                    break
                if s["shist"] and [float(v) for v in cf(list(s["shist"][-1]))] != s["shist"][-1]:
                    f.append(fail("result_constrained", site_of(case), "logged-solution-violates-constraints", dict(op=k, x=s["shist"][-1])))
                    break
    return f


# ---- C04
def oracle_c04(case, out):
    f = []
    if "__exception__" in out:
        return [fail("no-crash", site_of(case), out["__exception__"], out.get("__msg__"))]
    emon_from = None     # number of calls made before an evaluation monitor was first installed
    emon_new_midrun = False
    last_f13 = None
    tk, tpat = taint_index(case, out)
    for k, (op, s) in enumerate(zip(case["ops"], out["trace"])):
        o = op["op"]
        sfx = (":" + tpat) if (tk is not None and k >= tk) else ""
        eh = s["ehist"]
        if any(not (b <= a) for a, b in zip(eh, eh[1:]) if a == a and b == b):
            if not any(x["op"] in ("SetObjective", "SetPenalty", "SetConstraints", "SetStrictRanges", "SetReducer", "SetStepMonitor") and j > _first_step(case) for j, x in enumerate(case["ops"][:k + 1])):
                f.append(fail("history_nonincreasing", site_of(case), "best-energy-history-increases", dict(op=k, ehist=eh)))
        if eh and o in ("Step", "Solve") and eh[-1] != s["bestE"] and not (eh[-1] != eh[-1]):
            f.append(fail("last_is_reported", site_of(case), "history-last-not-best", dict(op=k, last=eh[-1], bestE=s["bestE"])))
        if s["evals"] != s["ncalls"]:
            pat = "evaluations-differ-from-real-calls"
            if case["solver"] == "DE2" and s["emx"] is not None and len(s["emx"]) == 0 and s["evals"] < s["ncalls"] \
               and any(energy_of_call(case, c) in (math.inf, -math.inf) for c in out["calls"]):
                pat = "de2-skips-infinite-energies-without-evaluation-monitor"
            elif case["solver"] == "DE2" and s["emx"] is not None and len(s["emx"]) > 0 and s["evals"] == len(s["emx"]):
                pat = "de2-counter-is-monitor-length"
            elif case["solver"] == "DE2" and last_f13 is not None and last_f13[0] == (s["evals"], s["ncalls"]):
                pat = last_f13[1]      # no evaluation since: the same stale counter value, observed again after a Set* call
            last_f13 = ((s["evals"], s["ncalls"]), pat) if pat.startswith("de2-") else None
            f.append(fail("counter_is_calls", site_of(case), pat, dict(op=k, evaluations=s["evals"], real=s["ncalls"])))
        if o == "SetEvalMonitor" and op.get("defer") and k + 1 < len(out["opres"]) and out["opres"][k + 1].get("kw_dropped"):
            pass        # handed to a Step that refused to start (the solver had stopped): never installed
        elif o == "SetEvalMonitor":
            if emon_from is None:
                emon_from = s["ncalls"]
            if op["new"] and not op.get("same"):     # (the monitor in use handed over again keeps its records)
                emon_from = s["ncalls"]
                if s["ncalls"] > 0:
                    emon_new_midrun = True
        if emon_from is not None and s["emx"] is not None:
            exp = out["calls"][emon_from:s["ncalls"]]
            if [c["x"] for c in exp] != s["emx"] or [c["y"] for c in exp] != s["emy"]:
                f.append(fail("evalmon_is_calls", site_of(case), "evaluation-monitor-differs-from-calls", dict(op=k, n_mon=len(s["emx"]), n_calls=len(exp))))
        powell = case["solver"] == "POW"
        pow_m0 = powell and any(t["maxiter"] == 0 and t["nsm"] == 0 and t["nstep"] > 0 for t in out["trace"][:k + 1])
        # Powell logs a generation one phase late: its step monitor is complete only once the run is stopped (Finalize)
        settled = (not powell) or s.get("synced", True)
        if settled and s["gens"] != max(0, s["nsm"] - 1):
            pat = "generations-not-stepmon"
            if powell and s["nsm"] == s["gens"] + 2 and len(s["shist"]) >= 2 and s["shist"][-1] == s["shist"][-2]:
                pat = "powell-finalize-duplicate-record"
            if pow_m0:
                pat = "powell-maxiter-0-initial-evaluation-not-logged"
            f.append(fail("generations_is_steps", site_of(case), pat, dict(op=k, gens=s["gens"], records=s["nsm"])))
        if not any(x["op"] == "SetStepMonitor" for x in case["ops"][:k + 1]):
            if s["gens"] != max(0, s["nstep"] - 1):
                pat = "generations-not-completed-iterations"
                if pow_m0:
                    pat = "powell-maxiter-0-initial-evaluation-not-logged"
                f.append(fail("generations_is_steps", site_of(case), pat, dict(op=k, gens=s["gens"], steps=s["nstep"])))
            if settled and s["nsm"] != s["nstep"]:
                pat = "stepmon-records-not-one-per-step"
                if powell and s["nsm"] == s["nstep"] + 1 and len(s["shist"]) >= 2 and s["shist"][-1] == s["shist"][-2]:
                    pat = "powell-finalize-duplicate-record"
                if pow_m0:
                    pat = "powell-maxiter-0-initial-evaluation-not-logged"
                f.append(fail("stepmon_one_per_step", site_of(case), pat, dict(op=k, records=s["nsm"], steps=s["nstep"])))
        if settled and s["shist"] and o in ("Step", "Solve") and (s["shist"][-1] != s["bestX"]):
            f.append(fail("stepmon_ends_in_result", site_of(case), "last-record-not-best" + sfx, dict(op=k)))
    # callbacks: exactly one per executed _Step that was given the callback, with the best at that time
    return f + _callback_check(case, out)


def _first_step(case):
    return next((k for k, o in enumerate(case["ops"]) if o["op"] in ("Step", "Solve")), 10 ** 9)


def _callback_check(case, out):
    f = []
    n_expected = 0
    prev_steps = 0
    for op, s in zip(case["ops"], out["trace"]):
        ran = s["nstep"] - prev_steps
        prev_steps = s["nstep"]
        if op["op"] in ("Step", "Solve") and op.get("cb"):
            n_expected += ran
        if s["ncb"] != n_expected:
            f.append(fail("callback_once_per_step", site_of(case), "callback-count", dict(expected=n_expected, got=s["ncb"])))
            break
    return f


# ---- C05
def oracle_c05(case, out):
    f = []
    if "__exception__" in out:
        return [fail("no-crash", site_of(case), out["__exception__"], out.get("__msg__"))]
    prev = None
    for k, (op, s) in enumerate(zip(case["ops"], out["trace"])):
        o = op["op"]
        if o == "Step" and prev is not None and prev["nsm"] > 0:
            mi, mf = prev["maxiter"], prev["maxfun"]
            stopped = []
            if isinstance(mi, int) and prev["gens"] >= mi:
                stopped.append("generation-limit")
            if isinstance(mf, int) and prev["evals"] >= mf:
                stopped.append("evaluation-limit")
            if prev["term_now"]:
                stopped.append("termination")
            if prev["exitreq"]:
                stopped.append("exit-request")
            # a reconfiguration between prev and now cannot happen (prev is the snapshot right before this Step)
            if stopped and (s["nstep"] != prev["nstep"] or s["ncalls"] != prev["ncalls"]):
                f.append(fail("no_step_when_stopped", site_of(case), "iteration-begun-while-stopped:" + "+".join(stopped),
                              dict(op=k, gens=prev["gens"], evals=prev["evals"], maxiter=mi, maxfun=mf)))
            if stopped and s["msg"] == "none":
                f.append(fail("stop_is_reported", site_of(case), "no-stop-message-while-stopped", dict(op=k, stopped=stopped)))
        if o in ("Step", "Solve"):
            if s["msg"] == "limits":
                ok = (isinstance(s["maxiter"], int) and s["gens"] >= s["maxiter"]) or (isinstance(s["maxfun"], int) and s["evals"] >= s["maxfun"])
                if not ok:
                    f.append(fail("message_is_true", site_of(case), "limits-message-but-no-limit-reached", dict(op=k)))
            if s["msg"] == "interrupt" and not s["exitreq"]:
                f.append(fail("message_is_true", site_of(case), "interrupt-message-without-request", dict(op=k)))
            if s["msg"] == "term" and s["term_now"] is False:
                f.append(fail("message_is_true", site_of(case), "termination-message-but-condition-false", dict(op=k)))
            if o == "Solve" and s["msg"] == "none":
                f.append(fail("solve_returns_stopped", site_of(case), "solve-returned-without-stop", dict(op=k)))
            if prev is not None and isinstance(prev["maxiter"], int) and s["nstep"] > prev["nstep"] and prev["nsm"] > 0 and o == "Solve":
                # inside Solve no iteration may begin at or beyond the generation limit
                if s["gens"] > max(prev["maxiter"], prev["gens"]):
                    f.append(fail("gens_le_maxiter", site_of(case), "generations-exceed-limit", dict(op=k, gens=s["gens"], maxiter=prev["maxiter"])))
        if o == "SetLimits" and prev is not None:
            if op["g"] is not None:
                exp = op["g"] + (prev["gens"] if op["new"] else 0)
                if s["maxiter"] != exp:
                    f.append(fail("limits_total_vs_new", site_of(case), "generation-limit-bookkeeping", dict(op=k, got=s["maxiter"], expected=exp)))
            if op["e"] is not None:
                exp = op["e"] + (prev["evals"] if op["new"] else 0)
                if s["maxfun"] != exp:
                    f.append(fail("limits_total_vs_new", site_of(case), "evaluation-limit-bookkeeping", dict(op=k, got=s["maxfun"], expected=exp)))
        prev = s
    return f


# ---- extra oracle-only case kinds (not in the machine model)

class FlatCost(object):
    """cost that ignores coordinate `flat` (a flat direction: a collapse candidate); picklable"""
    def __init__(self, a, flat, tag):
        self.a, self.flat, self.tag = a, flat, tag
    def __call__(self, x):
        rec = L.REG.get(self.tag)
        if rec is not None:
            rec.cost_calls.append((L._vec(x), {"s": 0.0}, 0)); rec.call_ctx.append({})
        return float(sum((float(v) - ai) ** 2 for i, (v, ai) in enumerate(zip(x, self.a)) if i != self.flat))


def gen_collapse(rng):
    ndim = rng.choice([2, 3])
    return dict(kind="collapse", solver=rng.choice(["NM", "DE", "DE2", "POW"]), ndim=ndim, npop=rng.choice([6, 8]),
                seed=rng.randrange(10 ** 6), a=[G.grid(rng, -1, 1) for _ in range(ndim)], flat=rng.randrange(ndim),
                x0=[G.grid(rng, 1, 3) for _ in range(ndim)], gens=rng.choice([2, 3, 5]), tol=rng.choice([1e-3, 0.05, 0.5]),
                maxiter=rng.choice([30, 60]), how=rng.choice(["solve", "solve", "steps"]))


def run_collapse(case):
    import random as _r, io, contextlib, warnings
    import numpy as np
    import mystic.termination as T
    with warnings.catch_warnings():
        warnings.simplefilter("ignore")
        with contextlib.redirect_stdout(io.StringIO()):
            _r.seed(case["seed"]); np.random.seed(case["seed"] % (2 ** 31))
            tag = L.new_tag(); rec = L.REG[tag] = L.Rec()
            try:
                s = L.build_solver(case["solver"], case["ndim"], case["npop"]); s._verif_tag = tag
                s.SetInitialPoints(list(case["x0"]))
                s.SetObjective(FlatCost(case["a"], case["flat"], tag))
                s.SetEvaluationLimits(generations=case["maxiter"])
                s.SetTermination(T.Or(T.ChangeOverGeneration(1e-12, 25), T.CollapseAt(None, case["tol"], case["gens"])))
                cb = L.CbFn(tag)
                with L.Instrumented():
                    if case["how"] == "solve":
                        s.Solve(callback=cb)
                    else:
                        n = 0
                        while not s.Step(callback=cb) and n < 3 * case["maxiter"]:
                            n += 1
                collapsed = bool(getattr(s, "_collapse", False)) and len(rec.cb) > 0
                return dict(nstep=rec.nstep, ncb=len(rec.cb), nsm=len(s._stepmon), gens=int(s.generations), evals=int(s.evaluations),
                            ncalls=len(rec.cost_calls), last_cb=rec.cb[-1] if rec.cb else None, bestX=L._vec(s.bestSolution),
                            collapsed_msgs=[m for m in getattr(s._stepmon, "_info", []) if "Collapse" in str(m)][:3])
            finally:
                L.REG.pop(tag, None)


def oracle_collapse(case, out):
    site = {"DE": "DifferentialEvolutionSolver", "DE2": "DifferentialEvolutionSolver2", "NM": "NelderMeadSimplexSolver", "POW": "PowellDirectionalSolver"}[case["solver"]]
    if "__exception__" in out:
        return [fail("no-crash", site, out["__exception__"], out.get("__msg__"))]
    f = []
    if out["ncb"] != out["nstep"]:
        f.append(fail("callback_once_per_step", site, "callback-count-with-collapse", dict(callbacks=out["ncb"], iterations=out["nstep"])))
    if out["evals"] != out["ncalls"] and case["solver"] != "DE2":
        f.append(fail("counter_is_calls", site, "evaluations-differ-from-real-calls-with-collapse", dict(evaluations=out["evals"], real=out["ncalls"])))
    if out["last_cb"] is not None and out["last_cb"] != out["bestX"] and case["solver"] != "POW":
        f.append(fail("callback_once_per_step", site, "last-callback-not-reported-best", dict(last=out["last_cb"], best=out["bestX"])))
    return f


# ---- the one-line wrappers (fmin, fmin_powell, diffev, diffev2): returned counts and warnflag vs what really happened
WRAP_SCALE = {"fmin": (1, 200, 200), "fmin_powell": (1, 1000, 1000), "diffev": (None, 10, 1000), "diffev2": (None, 10, 1000)}   # npop, iterscale, evalscale (Core/NM.v, Powell.v, DE.v)


class RosenCost(object):
    """harness-owned cost: a Rosenbrock valley (hard: runs hit their limits) or a bowl (easy: runs converge); counts its calls"""
    def __init__(self, kind):
        self.kind, self.n = kind, 0
    def __call__(self, x):
        self.n += 1
        x = [float(v) for v in x]
        if self.kind == "bowl":
            return sum((v - 0.5) ** 2 for v in x)
        return sum(100.0 * (x[i + 1] - x[i] ** 2) ** 2 + (1 - x[i]) ** 2 for i in range(len(x) - 1)) + (0.0 if len(x) > 1 else (x[0] - 1) ** 2)


class WrapPenalty(object):
    """harness-owned penalty for the wrappers: non-zero almost everywhere"""
    def __init__(self, w):
        self.w = w
    def __call__(self, x):
        return self.w * sum(abs(float(v) - 0.25) for v in x)


def gen_wrapper(rng):
    w = rng.choice(["fmin", "fmin_powell", "diffev", "diffev2"])
    ndim = rng.choice([1, 2, 3, 4]) if w != "fmin" else rng.choice([2, 3, 5, 6])
    return dict(kind="wrapper", solver=w, ndim=ndim, npop=rng.choice([4, 6, 10]), cost=rng.choice(["rosen", "rosen", "bowl"]),
                maxiter=rng.choice([None, None, 0, 1, 3, 25]), maxfun=rng.choice([None, None, 1, 7, 60]),
                x0=[G.grid(rng, -2, 2) for _ in range(ndim)], seed=rng.randrange(10 ** 6), pen=rng.choice([None, None, 0.5, 2.0]))


def run_wrapper(case):
    import random as _r, io, contextlib, warnings
    import numpy as np
    from mystic.monitors import Monitor
    from mystic.solvers import fmin, fmin_powell, diffev, diffev2
    with warnings.catch_warnings():
        warnings.simplefilter("ignore")
        with contextlib.redirect_stdout(io.StringIO()):
            _r.seed(case["seed"]); np.random.seed(case["seed"] % (2 ** 31))
            cost = RosenCost(case["cost"]); em, sm = Monitor(), Monitor()
            w = case["solver"]
            kw = dict(maxiter=case["maxiter"], maxfun=case["maxfun"], full_output=1, disp=0, evalmon=em, itermon=sm, handler=False)
            pen = WrapPenalty(case["pen"]) if case.get("pen") else None
            if pen is not None:
                kw["penalty"] = pen
            if w == "fmin":
                r = fmin(cost, list(case["x0"]), **kw)
            elif w == "fmin_powell":
                r = fmin_powell(cost, list(case["x0"]), **kw)
            else:
                r = (diffev if w == "diffev" else diffev2)(cost, list(case["x0"]), npop=case["npop"], **kw)
            return dict(x=[float(v) for v in np.atleast_1d(r[0])], fval=float(np.ravel(r[1])[0]), iters=int(r[2]), fcalls=int(r[3]), warnflag=int(r[4]),
                        real=cost.n, nem=len(em), nsm=len(sm), nstep=len(sm),
                        x_evaluated=any([float(v) for v in np.atleast_1d(p)] == [float(v) for v in np.atleast_1d(r[0])] for p in em.x),
                        cost_at_x=float(RosenCost(case["cost"])(np.atleast_1d(r[0])) + (pen(np.atleast_1d(r[0])) if pen is not None else 0.0)),
                        last_logged=([float(v) for v in np.atleast_1d(sm.x[-1])], float(np.ravel(sm.y[-1])[0])) if len(sm) else None)


def oracle_wrapper(case, out):
    site = "solvers." + case["solver"]
    if "__exception__" in out:
        return [fail("no-crash", site, out["__exception__"], out.get("__msg__"))]
    f = []
    npop, isc, esc = WRAP_SCALE[case["solver"]]
    npop = case["npop"] if npop is None else npop
    mi = case["maxiter"] if case["maxiter"] is not None else case["ndim"] * npop * isc
    mf = case["maxfun"] if case["maxfun"] is not None else case["ndim"] * npop * esc
    if out["fcalls"] != out["real"]:
        f.append(fail("counter_is_calls", site, "wrapper-funcalls-differ-from-real-calls", dict(returned=out["fcalls"], real=out["real"])))
    want = 1 if out["real"] >= mf else (2 if out["iters"] >= mi else 0)
    if out["warnflag"] != want:
        f.append(fail("message_is_true", site, "wrapper-warnflag-not-true-of-final-state",
                      dict(warnflag=out["warnflag"], expected=want, evaluations=out["real"], iterations=out["iters"], maxiter_in_force=mi, maxfun_in_force=mf)))
    if not out["x_evaluated"]:
        f.append(fail("best_is_evaluated", site, "wrapper-result-never-evaluated", dict(x=out["x"])))
    if out["fval"] != out["cost_at_x"]:
        f.append(fail("best_energy_is_cost", site, "wrapper-fval-is-not-cost-plus-penalty-at-x", dict(x=out["x"], fval=out["fval"], cost=out["cost_at_x"])))
    if out["last_logged"] is not None and out["last_logged"][1] != out["fval"]:
        f.append(fail("last_is_reported", site, "wrapper-last-logged-energy-not-fval", dict(last=out["last_logged"], fval=out["fval"])))
    if out["nem"] != out["real"]:
        f.append(fail("evalmon_is_calls", site, "wrapper-evalmon-length-differs-from-real-calls", dict(monitor=out["nem"], real=out["real"])))
    if out["iters"] > mi and out["iters"] > 0:
        f.append(fail("limits_honoured", site, "wrapper-iterations-exceed-limit", dict(iterations=out["iters"], maxiter_in_force=mi)))
    return f


def gen_ensemble(rng):
    ndim = rng.choice([1, 2])
    return dict(kind="ensemble", ens=rng.choice(["lattice", "buckshot"]), nested=rng.choice(["DE", "DE2", "NM", "POW"]), ndim=ndim,
                nbins=[rng.choice([1, 2]) for _ in range(ndim)], npts=rng.choice([2, 3]), seed=rng.randrange(10 ** 6),
                a=[G.grid(rng, -1, 1) for _ in range(ndim)], lo=[-2.0] * ndim, hi=[2.0] * ndim, steps=rng.choice([2, 3, 5]),
                inner=rng.choice([2, 3, 4]),
                # members that stop by themselves (limit / flat history) and are stepped on, or solved a second time, afterwards
                term=rng.choice(["never", "never", "cog", "cog"]), grow=rng.random() < 0.5, again=rng.random() < 0.3)


class QuadCost(object):
    def __init__(self, a, tag):
        self.a, self.tag = a, tag
    def __call__(self, x):
        y = float(sum((float(v) - ai) ** 2 for v, ai in zip(x, self.a)))
        rec = L.REG.get(self.tag)
        if rec is not None:
            rec.cost_calls.append((L._vec(x), {"s": y}, 0)); rec.call_ctx.append({})
        return y


def run_ensemble(case):
    """C01 for ensembles: after every Step of a lattice/buckshot ensemble the reported best is an evaluated point with its cost"""
    import random as _r, io, contextlib, warnings
    import numpy as np
    from mystic.solvers import LatticeSolver, BuckshotSolver
    import mystic.termination as T
    with warnings.catch_warnings():
        warnings.simplefilter("ignore")
        with contextlib.redirect_stdout(io.StringIO()):
            _r.seed(case["seed"]); np.random.seed(case["seed"] % (2 ** 31))
            tag = L.new_tag(); rec = L.REG[tag] = L.Rec()
            try:
                s = LatticeSolver(case["ndim"], case["nbins"]) if case["ens"] == "lattice" else BuckshotSolver(case["ndim"], case["npts"])
                s.SetNestedSolver(L.solver_classes()[case["nested"]])
                s.SetStrictRanges(list(case["lo"]), list(case["hi"]))
                s.SetEvaluationLimits(generations=case["inner"])
                s.SetTermination(T.ChangeOverGeneration(1e-4, 2) if case.get("term") == "cog" else T.VTR(-1.0))
                s.SetObjective(QuadCost(case["a"], tag))
                snaps = []
                def snap():
                    snaps.append(dict(bestX=L._vec(s.bestSolution), bestE=float(s.bestEnergy), ncalls=len(rec.cost_calls),
                                      pop=[L._vec(p) for p in s.population], popE=[float(e) for e in s.popEnergy],
                                      members=[dict(pop=[L._vec(p) for p in m.population], popE=[float(e) for e in m.popEnergy])
                                               for m in s._allSolvers if m is not None]))
                for k in range(case["steps"] + (4 if "term" in case else 0)):
                    if case.get("grow", True):
                        s.SetEvaluationLimits(generations=case["inner"] * (k + 1))
                    s.Step()
                    snap()
                if case.get("again"):
                    s.Solve(); snap()
                return dict(snaps=snaps, calls=[(x, y["s"]) for x, y, _ in rec.cost_calls])
            finally:
                L.REG.pop(tag, None)


def oracle_ensemble(case, out):
    site = "ensemble:" + case["ens"] + "/" + case["nested"]
    if "__exception__" in out:
        return [fail("no-crash", site, out["__exception__"], out.get("__msg__"))]
    f = []
    for k, s in enumerate(out["snaps"]):
        if not isfinite(s["bestE"]):
            continue
        made = out["calls"][:s["ncalls"]]
        hit = [y for x, y in made if x == s["bestX"]]
        if not hit:
            f.append(fail("best_was_evaluated", site, "ensemble-best-not-evaluated", dict(step=k, bestX=s["bestX"])))
            break
        if s["bestE"] not in hit:
            f.append(fail("best_energy_is_cost_plus_penalty", site, "ensemble-best-energy-mismatch", dict(step=k, bestE=s["bestE"], cost_there=hit[:2])))
            break
    # after every iteration each member of the reported population (and of every nested solver's) carries the energy obtained there
    for k, s in enumerate(out["snaps"]):
        if f:
            break
        made = {}
        for x, y in out["calls"][:s["ncalls"]]:
            made.setdefault(tuple(x), set()).add(y)
        groups = [("ensemble", s.get("pop", []), s.get("popE", []))] + [("member %d" % i, m["pop"], m["popE"]) for i, m in enumerate(s.get("members", []))]
        for who, pop, popE in groups:
            for j, (x, e) in enumerate(zip(pop, popE)):
                if isfinite(e) and e not in made.get(tuple(x), ()):
                    f.append(fail("member_energy_is_objective", site, "ensemble-population-energy-stale", dict(step=k, who=who, index=j, x=x, e=e, cost_there=sorted(made.get(tuple(x), ()))[:2])))
                    break
            if f:
                break
    return f


# ---- C02 for the one-liner interfaces: bounds= holds for every call the wrapper makes, also for what it computes for its return value
class _PinOut(object):
    def __init__(self, i, c):
        self.i, self.c = i, c
    def __call__(self, x):
        x = list(x); x[self.i] = self.c
        return x


def gen_wrapbox(rng):
    ndim = rng.choice([2, 3])
    lo = [rng.choice([-1.0, 0.0]) for _ in range(ndim)]
    hi = [l + rng.choice([1.0, 2.0]) for l in lo]
    i = rng.randrange(ndim)
    pin = rng.choice([hi[i] + 2.0, lo[i] - 1.5, (lo[i] + hi[i]) / 2, None])     # a constraint that leaves the box, stays inside it, or none
    return dict(kind="wrapbox", solver=rng.choice(["fmin", "fmin_powell", "diffev", "diffev2"]), ndim=ndim, npop=rng.choice([4, 6]), lo=lo, hi=hi,
                a=[G.grid(rng, -2, 3) for _ in range(ndim)], x0=[l + (h - l) * rng.choice([0.25, 0.5, 0.75]) for l, h in zip(lo, hi)],
                pin=None if pin is None else [i, pin], full=rng.random() < 0.8, mode=rng.choice([None, None, "tight", "clip"]),
                maxiter=rng.choice([3, 10, 25]), seed=rng.randrange(10 ** 6))


def run_wrapbox(case):
    import random as _r, io, contextlib, warnings
    import numpy as np
    from mystic.solvers import fmin, fmin_powell, diffev, diffev2
    with warnings.catch_warnings():
        warnings.simplefilter("ignore")
        with contextlib.redirect_stdout(io.StringIO()):
            _r.seed(case["seed"]); np.random.seed(case["seed"] % (2 ** 31))
            tag = L.new_tag(); rec = L.REG[tag] = L.Rec()
            try:
                cost = QuadCost(case["a"], tag)
                kw = dict(bounds=list(zip(case["lo"], case["hi"])), maxiter=case["maxiter"], maxfun=None, full_output=1 if case["full"] else 0, disp=0, handler=False)
                if case["pin"] is not None:
                    kw["constraints"] = _PinOut(*case["pin"])
                if case["mode"] == "tight":
                    kw["tightrange"] = True
                elif case["mode"] == "clip":
                    kw["cliprange"] = True
                w = case["solver"]
                if w in ("fmin", "fmin_powell"):
                    r = (fmin if w == "fmin" else fmin_powell)(cost, list(case["x0"]), **kw)
                else:
                    r = (diffev if w == "diffev" else diffev2)(cost, list(case["x0"]), npop=case["npop"], **kw)
                if case["full"]:
                    x, fv = [float(v) for v in np.atleast_1d(r[0])], float(np.ravel(r[1])[0])
                else:
                    x, fv = [float(v) for v in np.atleast_1d(r)], None
                return dict(nstep=2, x=x, fval=fv, calls=[c[0] for c in rec.cost_calls])
            finally:
                L.REG.pop(tag, None)


def oracle_wrapbox(case, out):
    site = "wrapper:" + case["solver"]
    if "__exception__" in out:
        return [fail("no-crash", site, out["__exception__"], out.get("__msg__"))]
    f = []
    inside = lambda x: all(l <= v <= h for v, l, h in zip(x, case["lo"], case["hi"]))
    bad = [x for x in out["calls"] if not inside(x)]
    if bad:
        f.append(fail("cost_never_called_outside", site, "wrapper-called-cost-outside-bounds", dict(n=len(bad), of=len(out["calls"]), first=bad[0])))
    if out["fval"] is not None and isfinite(out["fval"]) and not inside(out["x"]):
        f.append(fail("finite_best_inside", site, "wrapper-finite-result-outside-bounds", dict(x=out["x"], fval=out["fval"])))
    return f


# ---- C02 for ensembles: ranges set on the ensemble hold for every member, however the member solver was handed over
def gen_ensbox(rng):
    ndim = rng.choice([1, 2, 2])
    lo = [rng.choice([-1.0, 0.0, 0.5]) for _ in range(ndim)]
    hi = [l + rng.choice([1.0, 2.0]) for l in lo]
    side = [rng.choice([-1, 1]) for _ in range(ndim)]
    # the unconstrained minimum lies outside the box (or, sometimes, inside)
    a = [(h + rng.choice([0.5, 1.5]) if sd > 0 else l - rng.choice([0.5, 1.5])) if rng.random() < 0.8 else (l + h) / 2 for l, h, sd in zip(lo, hi, side)]
    how = rng.choice(["class", "class", "instance", "instance", "instance-own-objective"])
    case = dict(kind="ensbox", ens=rng.choice(["lattice", "buckshot"]), nested=rng.choice(["NM", "POW", "DE", "DE2"]), ndim=ndim,
                nbins=[rng.choice([1, 2]) for _ in range(ndim)], npts=rng.choice([2, 3]), seed=rng.randrange(10 ** 6), a=a, lo=lo, hi=hi,
                how=how, mode="solve" if how == "instance" or rng.random() < 0.6 else "step", inner=rng.choice([3, 6, 10]),
                first=rng.choice(["ranges", "nested"]))
    if case["how"] == "class" and case["mode"] == "step" and rng.random() < 0.5:
        # the ranges are narrowed between two iterations of the ensemble
        case["mid"] = dict(after=rng.choice([1, 2, 3]), lo=list(lo), hi=[l + (h - l) / 2 for l, h in zip(lo, hi)])
    return case


def run_ensbox(case):
    import random as _r, io, contextlib, warnings
    import numpy as np
    from mystic.solvers import LatticeSolver, BuckshotSolver
    import mystic.termination as T
    with warnings.catch_warnings():
        warnings.simplefilter("ignore")
        with contextlib.redirect_stdout(io.StringIO()):
            _r.seed(case["seed"]); np.random.seed(case["seed"] % (2 ** 31))
            tag = L.new_tag(); rec = L.REG[tag] = L.Rec()
            try:
                cost = QuadCost(case["a"], tag)
                s = LatticeSolver(case["ndim"], case["nbins"]) if case["ens"] == "lattice" else BuckshotSolver(case["ndim"], case["npts"])
                cls = L.solver_classes()[case["nested"]]
                def nested():
                    if case["how"] == "class":
                        return s.SetNestedSolver(cls)
                    m = cls(case["ndim"], 4) if case["nested"] in ("DE", "DE2") else cls(case["ndim"])
                    if case["nested"] in ("DE", "DE2"):
                        m.SetRandomInitialPoints(list(case["lo"]), list(case["hi"]))
                    m.SetEvaluationLimits(generations=case["inner"]); m.SetTermination(T.VTR(-1.0))
                    if case["how"] == "instance-own-objective":
                        m.SetStrictRanges(list(case["lo"]), list(case["hi"])); m.SetObjective(cost)
                    s.SetNestedSolver(m)
                ranges = lambda: s.SetStrictRanges(list(case["lo"]), list(case["hi"]))
                for f in ((ranges, nested) if case["first"] == "ranges" else (nested, ranges)):
                    f()
                s.SetEvaluationLimits(generations=case["inner"])
                s.SetTermination(T.VTR(-1.0))
                nstep, n_mid = 0, None
                if case["mode"] == "solve":
                    s.Solve(cost); nstep = 2
                else:
                    s.SetObjective(cost)
                    while nstep < 40 and not s.Step():
                        nstep += 1
                        if case.get("mid") and nstep == case["mid"]["after"]:
                            s.SetStrictRanges(list(case["mid"]["lo"]), list(case["mid"]["hi"])); n_mid = len(rec.cost_calls)
                return dict(nstep=nstep, n_mid=n_mid, bestX=L._vec(s.bestSolution), bestE=float(s.bestEnergy), calls=[x for x, y, _ in rec.cost_calls],
                            members=[dict(bestX=L._vec(m.bestSolution), bestE=float(m.bestEnergy)) for m in s._allSolvers if m is not None])
            finally:
                L.REG.pop(tag, None)


def oracle_ensbox(case, out):
    site = "ensemble:" + case["ens"] + "/" + case["nested"] + "/" + case["how"]
    if "__exception__" in out:
        return [fail("no-crash", site, out["__exception__"], out.get("__msg__"))]
    f = []
    inside = lambda x: all(l <= v <= h for v, l, h in zip(x, case["lo"], case["hi"]))
    bad = [x for x in out["calls"] if not inside(x)]
    if bad:
        f.append(fail("cost_never_called_outside", site, "ensemble-member-evaluated-outside-ranges", dict(n=len(bad), of=len(out["calls"]), first=bad[0])))
    if out.get("n_mid") is not None:      # calls made after the ranges were narrowed
        m = case["mid"]
        late = [x for x in out["calls"][out["n_mid"]:] if not all(l <= v <= h for v, l, h in zip(x, m["lo"], m["hi"]))]
        if late:
            f.append(fail("cost_never_called_outside", "ensemble:" + case["ens"], "ensemble-member-evaluated-outside-ranges:ranges-changed-after-members-exist",
                          dict(n=len(late), of=len(out["calls"]) - out["n_mid"], first=late[0], box=[m["lo"], m["hi"]])))
        return f      # (the best solution may legitimately predate the change)
    if isfinite(out["bestE"]) and not inside(out["bestX"]):
        f.append(fail("finite_best_inside", site, "ensemble-best-outside-ranges", dict(bestX=out["bestX"], bestE=out["bestE"])))
    for i, m in enumerate(out["members"]):
        if isfinite(m["bestE"]) and not inside(m["bestX"]):
            f.append(fail("finite_best_inside", site, "ensemble-member-best-outside-ranges", dict(member=i, bestX=m["bestX"], bestE=m["bestE"])))
            break
    return f


# ---- C04 across a restart: the periodic dump (SetSaveFrequency) restored with LoadSolver has the counters and monitors of the generation it was
# taken at, and keeps counting from there
def gen_restart(rng):
    ndim = rng.choice([1, 2, 3])
    return dict(kind="restart", solver=rng.choice(["DE", "DE2", "NM", "POW"]), ndim=ndim, npop=rng.choice([4, 6]), seed=rng.randrange(10 ** 6),
                a=[G.grid(rng, -1, 1) for _ in range(ndim)], x0=[G.grid(rng, -2, 2) for _ in range(ndim)], freq=rng.choice([1, 2, 3]),
                steps=rng.choice([3, 4, 5, 7]), more=rng.choice([1, 2, 3]), ranges=rng.random() < 0.4, emon=rng.random() < 0.7)


def run_restart(case):
    import random as _r, io, contextlib, warnings, tempfile, os
    import numpy as np
    from mystic.solvers import LoadSolver
    from mystic.monitors import Monitor
    import mystic.termination as T
    with warnings.catch_warnings():
        warnings.simplefilter("ignore")
        with contextlib.redirect_stdout(io.StringIO()):
            _r.seed(case["seed"]); np.random.seed(case["seed"] % (2 ** 31))
            tag = L.new_tag(); rec = L.REG[tag] = L.Rec()
            fd, path = tempfile.mkstemp(suffix=".pkl", prefix="verif_restart_"); os.close(fd); os.remove(path)
            try:
                s = L.build_solver(case["solver"], case["ndim"], case["npop"])
                if case["solver"] in ("DE", "DE2"):
                    s.SetRandomInitialPoints([-2.0] * case["ndim"], [2.0] * case["ndim"])
                else:
                    s.SetInitialPoints(list(case["x0"]))
                if case["ranges"]:
                    s.SetStrictRanges([-2.0] * case["ndim"], [2.0] * case["ndim"])
                if case["emon"]:
                    s.SetEvaluationMonitor(Monitor())
                s.SetGenerationMonitor(Monitor())
                s.SetEvaluationLimits(generations=1000, evaluations=100000)
                s.SetTermination(T.VTR(-1.0))
                s.SetObjective(QuadCost(case["a"], tag))
                s.SetSaveFrequency(case["freq"], path)
                view = lambda q: dict(gens=int(q.generations), evals=int(q.evaluations), nsm=len(q._stepmon), nem=len(q._evalmon), ncalls=len(rec.cost_calls),
                                      bestE=float(q.bestEnergy), lastE=(float(q._stepmon._y[-1]) if len(q._stepmon) else None), neh=len(q.energy_history or []))
                orig = []
                for k in range(case["steps"]):
                    s.Step(); orig.append(view(s))
                if not os.path.exists(path):
                    return dict(nstep=case["steps"], orig=orig, restored=None, cont=[])
                r = LoadSolver(path)
                restored = view(r)
                cont = []
                for k in range(case["more"]):
                    n0 = len(rec.cost_calls); r.Step(); v = view(r); v["new_calls"] = len(rec.cost_calls) - n0; cont.append(v)
                return dict(nstep=case["steps"], orig=orig, restored=restored, cont=cont)
            finally:
                L.REG.pop(tag, None)
                if os.path.exists(path):
                    os.remove(path)


def oracle_restart(case, out):
    site = "restart:" + case["solver"]
    if "__exception__" in out:
        return [fail("no-crash", site, out["__exception__"], out.get("__msg__"))]
    f = []
    r = out["restored"]
    if r is None:
        return f
    # the dump was taken at the end of one of the Steps of the original run: the restored solver shows that Step's counters and monitors
    keys = ("gens", "evals", "nsm", "nem", "bestE", "lastE", "neh")
    if not any(all(o[k] == r[k] for k in keys) for o in out["orig"]):
        near = min(out["orig"], key=lambda o: abs(o["evals"] - r["evals"]))
        f.append(fail("counters_survive_restart", site, "restored-solver-is-no-generation-of-the-run",
                      dict(restored={k: r[k] for k in keys}, nearest={k: near[k] for k in keys}, fields=[k for k in keys if near[k] != r[k]])))
        return f
    # ... and keeps counting its own evaluations and generations from there
    prev = r
    for v in out["cont"]:
        if v["evals"] - prev["evals"] != v["new_calls"]:
            f.append(fail("counter_is_calls", site, "restored-solver-miscounts-evaluations", dict(before=prev["evals"], after=v["evals"], new_calls=v["new_calls"])))
            break
        if v["gens"] != prev["gens"] + 1 or (v["nsm"] - prev["nsm"] not in (0, 1, 2)):
            f.append(fail("generation_counter", site, "restored-solver-miscounts-generations", dict(before=[prev["gens"], prev["nsm"]], after=[v["gens"], v["nsm"]])))
            break
        prev = v
    return f


def with_extras(gen, run, orc, extras):
    """extend a (generate, run_impl, oracle) triple with oracle-only case kinds: extras = {kind: (share, gen, run, oracle)}"""
    def generate(rng, n, tier):
        for c in gen(rng, n, tier):
            r = rng.random()
            acc = 0.0
            done = False
            for kind, (share, g, _, _) in extras.items():
                acc += share
                if r < acc:
                    yield g(rng); done = True; break
            if not done:
                yield c
    def run_impl(case):
        k = case.get("kind")
        return extras[k][2](case) if k in extras else run(case)
    def oracle(case, out):
        k = case.get("kind")
        return extras[k][3](case, out) if k in extras else orc(case, out)
    return generate, run_impl, oracle


# ---- Coq side
def coq_preamble():
    return L.PREAMBLE


def make_coq_terms(mask):
    def coq_terms(case, out):
        if "__exception__" in out or case.get("kind") in ("collapse", "ensemble", "wrapper", "ensbox", "restart", "wrapbox") or not L.modelled(case):
            return []
        if sum(len(r.get("inputs", [])) for r in out.get("opres", [])) > MAX_MODEL_ITERS:
            return []      # a run of thousands of iterations (e.g. every energy infinite until the default limits): oracle only
        t = L.check_term(case, out, mask)
        if len(t) > MAX_TERM_CHARS:
            return []      # (e.g. a Powell Solve of thousands of evaluations under an evaluation monitor: megabytes of expected observations) oracle only
        return [t]
    return coq_terms


def coq_debug(case, out, k):
    return L.debug_term(case, out)


def classify(case, out):
    if case.get("kind") in ("collapse", "ensemble", "wrapper", "ensbox", "restart", "wrapbox"):
        tags = ["kind:" + case["kind"], "solver:" + case.get("solver", case.get("nested", "?"))]
        if case["kind"] == "wrapper" and "__exception__" not in out:
            tags += ["warnflag:%d" % out["warnflag"], "limits:%s/%s" % ("default" if case["maxiter"] is None else "given", "default" if case["maxfun"] is None else "given")]
        if "__exception__" in out:
            return json.dumps(case, sort_keys=True), False, tags + ["exception:" + out["__exception__"]]
        n = out.get("nstep", len(out.get("snaps", [])))
        return json.dumps(case, sort_keys=True), n >= 2, tags
    ops = [o["op"] for o in case["ops"]]
    tags = ["solver:" + case["solver"], "ndim:%d" % case["ndim"]]
    tags += ["has:" + n for n in ("SetConstraints", "SetStrictRanges", "SetPenalty", "SetLimits", "Solve", "RequestExit", "Finalize", "SetEvalMonitor", "SetReducer") if n in ops]
    if "__exception__" in out:
        return json.dumps(case, sort_keys=True), False, tags + ["exception:" + out["__exception__"]]
    tr = out["trace"]
    msgs = set(s["msg"] for s in tr)
    tags += ["msg:" + m for m in sorted(msgs)]
    nsteps = tr[-1]["nstep"] if tr else 0
    tags.append("steps:%s" % ("0" if nsteps == 0 else "1-3" if nsteps <= 3 else "4+"))
    tags.append("modelled:%s" % L.modelled(case))
    # ties: energies that coincide between distinct evaluated points (where < vs <= matters)
    es = [c["y"].get("s") for c in out["calls"]]
    ties = len(es) - len(set(es))
    tags.append("energy-ties:%s" % ("0" if ties == 0 else "some"))
    mid = any(o in ("SetObjective", "SetPenalty", "SetConstraints", "SetStrictRanges") for o in ops[_first_step(case) + 1:]) if _first_step(case) < len(ops) else False
    tags.append("reconfigured-mid-run:%s" % mid)
    return json.dumps(case, sort_keys=True), nsteps >= 2, tags


def shrink(case):
    if "ops" not in case:
        return
    ops = case["ops"]
    for i in range(len(ops) - 1, -1, -1):
        if ops[i]["op"] in ("SetObjective",) and sum(1 for o in ops if o["op"] == "SetObjective") == 1:
            continue
        yield dict(case, ops=ops[:i] + ops[i + 1:])
    if case["ndim"] > 1 and not any(o["op"] in ("SetStrictRanges", "SetRandomInitialPoints", "SetInitialPoints") for o in ops):
        pass
