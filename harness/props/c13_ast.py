"""Shared by C13 and C14: expression trees that are printed BOTH as mystic constraint text and as Gallina terms
(coq/Pure/SymCompile.v `expr`), plus an independent float evaluator used by the generators and the oracles.

Tree (JSON-able):  ["c", v] constant | ["l", name, v] a name supplied through `locals` | ["v", i] variable x_i |
                   ["+",a,b] ["-",a,b] ["*",a,b] ["/",a,b] | ["neg",a] ["abs",a] | ["min",a,b] ["max",a,b]
"""
import math
from harness.coqio import flit, natlit, lst

CMPS = ["<", "<=", "=", "!=", ">=", ">"]
COQ_CMP = {"<": "Clt", "<=": "Cle", "=": "Ceq", "!=": "Cne", ">=": "Cge", ">": "Cgt"}

NAME_POOL = ["A", "B", "AB", "BA", "A1", "A10", "A11", "Cx", "ALPHA", "BETA", "Q_r", "W", "WW", "Z9", "D", "DD",
             "G2", "G21", "H", "K_", "M", "MM", "P0", "P01", "R", "S_1", "T", "U", "UU", "Y"]
BASES = ["y", "p", "xx", "z_"]
LOCAL_NAMES = ["ca", "cb", "kq", "w_", "gam", "pi", "tau"]   # pi, tau: names the compiled code also imports from math / numpy (the user's value must win)


# ------------------------------------------------------------------ printing as mystic text
def var_name(scheme, i):
    if scheme["type"] == "x":
        return "x%d" % i
    if scheme["type"] == "base":
        return "%s%d" % (scheme["base"], i)
    return scheme["names"][i]


def fnum(v):
    s = repr(float(v))
    return "(%s)" % s if s.startswith("-") else s


def text(e, scheme, top=False):
    t = e[0]
    if t == "c":
        return fnum(e[1]) if not top else repr(float(e[1]))
    if t == "l":
        return e[1]
    if t == "v":
        return var_name(scheme, e[1])
    if t in ("+", "-", "*", "/"):
        s = "%s %s %s" % (text(e[1], scheme), t, text(e[2], scheme)) if t in "+-" else \
            "%s%s%s" % (text(e[1], scheme), t, text(e[2], scheme))
        # top-level sums/differences/products are printed without parentheses (the parsers append
        # ' - _tol(..)' / wrap in 'lhs - (rhs)' themselves)
        return s if top else "(%s)" % s
    if t == "neg":
        s = "-%s" % text(e[1], scheme)
        return s if top else "(%s)" % s
    if t == "abs":
        return "abs(%s)" % text(e[1], scheme, top=True)
    if t in ("min", "max"):
        return "%s(%s, %s)" % (t, text(e[1], scheme, top=True), text(e[2], scheme, top=True))
    raise ValueError(t)


# ------------------------------------------------------------------ printing as Gallina (expr NumF)
def gal(e):
    t = e[0]
    if t == "c":
        return "(K %s)" % flit(e[1])
    if t == "l":
        return "(K %s)" % flit(e[2])
    if t == "v":
        return "(V %s)" % natlit(e[1])
    if t in ("+", "-", "*", "/", "min", "max"):
        c = {"+": "EAdd", "-": "ESub", "*": "EMul", "/": "EDiv", "min": "EMin", "max": "EMax"}[t]
        return "(%s %s %s)" % (c, gal(e[1]), gal(e[2]))
    if t in ("neg", "abs"):
        return "(%s %s)" % ({"neg": "ENeg", "abs": "EAbs"}[t], gal(e[1]))
    raise ValueError(t)


PREAMBLE = r"""
From Coq Require Import PrimFloat.
From MV Require Import Common.Num Pure.SymCompile.
Definition F := NumF.
Definition K (c : float) : expr NumF := @EConst NumF c.
Definition V (i : nat) : expr NumF := @EVar NumF i.
Definition R (i : nat) (c : cmp) (e : expr NumF) : irel NumF := @mkRel NumF i c e.
Definition G (a : expr NumF) (c : cmp) (b : expr NumF) : grel NumF := @mkG NumF a c b.
Definition ovec_eq (m e : option (list float)) : bool :=
  match m, e with Some a, Some b => flist_eq a b | None, None => true | _, _ => false end.
Definition ofl (o : option float) : option float := o.
(* equal, or within 1e-9 relative (python's pf**2 is libm pow, the model multiplies) *)
Definition fclose (a b : float) : bool :=
  (feq a b || PrimFloat.leb (PrimFloat.abs (PrimFloat.sub a b))
                (PrimFloat.mul 0x1.12e0be826d695p-30 (PrimFloat.add (PrimFloat.abs a) (PrimFloat.abs b))))%bool.
Definition oclose (m e : option float) : bool :=
  match m, e with Some a, Some b => fclose a b | None, None => true | _, _ => false end.
Definition opair_eq (m : option (list float * list float)) (e : option (list float * list float)) : bool :=
  match m, e with Some (a, b), Some (c, d) => (flist_eq a c && flist_eq b d)%bool | None, None => true | _, _ => false end.
"""


def fl(xs):
    return "(%s : list float)" % lst(xs, flit)


def ofl(xs):
    return "None" if xs is None else "(Some %s)" % fl(xs)


def oflist(bounds):
    """list of optional bounds (None / +-inf = absent)"""
    items = []
    for b in bounds:
        if b is None or b in (math.inf, -math.inf):
            items.append("None")
        else:
            items.append("(Some %s)" % flit(b))
    return "(%s : list (option float))" % lst(items)


# ------------------------------------------------------------------ independent evaluation (python floats)
def pyeval(e, x):
    t = e[0]
    if t == "c":
        return float(e[1])
    if t == "l":
        return float(e[2])
    if t == "v":
        return float(x[e[1]])
    if t == "neg":
        return -pyeval(e[1], x)
    if t == "abs":
        return abs(pyeval(e[1], x))
    a, b = pyeval(e[1], x), pyeval(e[2], x)
    if t == "+":
        return a + b
    if t == "-":
        return a - b
    if t == "*":
        return a * b
    if t == "/":
        return a / b
    if t == "min":
        return b if b < a else a
    if t == "max":
        return b if b > a else a
    raise ValueError(t)


def evars(e):
    t = e[0]
    if t in ("c", "l"):
        return set()
    if t == "v":
        return {e[1]}
    s = set()
    for a in e[1:]:
        s |= evars(a)
    return s


def elocals(e, acc=None):
    acc = {} if acc is None else acc
    if e[0] == "l":
        acc[e[1]] = e[2]
    elif e[0] not in ("c", "v"):
        for a in e[1:]:
            elocals(a, acc)
    return acc


def finite_everywhere(e, x):
    """every intermediate value of the evaluation is finite"""
    t = e[0]
    if t in ("c", "l", "v"):
        return math.isfinite(pyeval(e, x))
    return all(finite_everywhere(a, x) for a in e[1:]) and math.isfinite(pyeval(e, x))


def tolerance(v, tol, rel):
    return tol + abs(v) * rel


def holds(c, a, b):
    return {"<": a < b, "<=": a <= b, "=": a == b, "!=": a != b, ">=": a >= b, ">": a > b}[c]


# ------------------------------------------------------------------ generators
def gen_const(rng, kind="small"):
    if kind == "huge":
        return rng.choice([1e100, -1e100, 3e150, 1e300, -2.5e200, 1e-300, 7e-200])
    r = rng.random()
    if r < 0.55:
        return rng.choice([-8, -4, -3, -2, -1, 0, 1, 2, 3, 4, 8]) * rng.choice([1.0, 1.0, 0.5, 0.25, 0.125])
    if r < 0.8:
        return rng.choice([0.1, -0.3, 2.5, 1.0 / 3.0, -1.7, 0.30000000000000004, 100.0, 1e-05, -1e-07, 12345.678])
    return round(rng.uniform(-10, 10), rng.choice([1, 3, 15]))


def gen_expr(rng, allowed, depth, locs=None, style="mixed"):
    """random tree over the variable indices in `allowed` (may be empty -> constants only)"""
    locs = locs or {}
    if depth <= 0 or (rng.random() < 0.25 and depth < 3):
        r = rng.random()
        if allowed and r < 0.6:
            return ["v", rng.choice(allowed)]
        if locs and r < 0.75:
            n = rng.choice(sorted(locs))
            return ["l", n, locs[n]]
        return ["c", gen_const(rng)]
    ops = {"linear": ["+", "-", "+", "-", "lin", "neg"],
           "product": ["*", "*", "+", "lin", "/"],
           "absminmax": ["abs", "min", "max", "abs", "min", "max", "+", "-"],
           "mixed": ["+", "-", "*", "lin", "abs", "min", "max", "neg", "/"]}[style]
    op = rng.choice(ops)
    if op == "lin":   # coefficient * subtree
        return ["*", ["c", gen_const(rng)], gen_expr(rng, allowed, depth - 1, locs, style)]
    if op == "/":     # division by a non-zero constant only
        d = gen_const(rng)
        while d == 0.0:
            d = gen_const(rng)
        return ["/", gen_expr(rng, allowed, depth - 1, locs, style), ["c", d]]
    if op in ("neg", "abs"):
        return [op, gen_expr(rng, allowed, depth - 1, locs, style)]
    return [op, gen_expr(rng, allowed, depth - 1, locs, style), gen_expr(rng, allowed, depth - 1, locs, style)]


def gen_scheme(rng, nv):
    r = rng.random()
    if r < 0.45:
        return {"type": "x"}
    if r < 0.65:
        return {"type": "base", "base": rng.choice(BASES)}
    names = rng.sample(NAME_POOL, nv)
    return {"type": "names", "names": names}


def mystic_variables(scheme):
    if scheme["type"] == "x":
        return "x"
    if scheme["type"] == "base":
        return scheme["base"]
    return list(scheme["names"])


def gen_point(rng, nv, mode=None):
    mode = mode or rng.choice(["grid", "grid", "int", "float", "huge", "tiny"])
    if mode == "grid":
        return [rng.randint(-64, 64) / 8.0 for _ in range(nv)]
    if mode == "int":
        return [float(rng.randint(-5, 5)) for _ in range(nv)]
    if mode == "float":
        return [rng.uniform(-100, 100) for _ in range(nv)]
    if mode == "big":
        return [rng.choice([1.0, -1.0, 2.5, -0.75]) * 10.0 ** rng.choice([8, 15, 16, 20, 30, 40]) for _ in range(nv)]
    if mode == "tiny":
        return [rng.choice([0.0, 1e-16, -1e-16, 5e-16, 1e-15, 2e-15, -3e-15, 1e-300, 4e-320]) for _ in range(nv)]
    return [rng.choice([1.0, -1.0, 2.5]) * 10.0 ** rng.choice([20, 50, 100, 150, 200, 300, -200]) for _ in range(nv)]


def nudge(v, steps):
    for _ in range(abs(steps)):
        v = math.nextafter(v, math.inf if steps > 0 else -math.inf)
    return v


PLACEMENTS = ["keep", "far-below", "far-above", "eq", "ulp-above", "ulp-below", "sliver-above", "sliver-below",
              "at-tol-above", "at-tol-below", "beyond-tol-above", "beyond-tol-below", "within-tol-above", "within-tol-below"]


def place(rng, mode, f, tol, rel):
    """a value for the left variable relative to the right-hand-side value f (boundary / sliver / ties)"""
    t = tolerance(f, tol, rel)
    if mode == "far-below":
        return f - max(1.0, abs(f)) * rng.choice([0.5, 1.0, 3.0])
    if mode == "far-above":
        return f + max(1.0, abs(f)) * rng.choice([0.5, 1.0, 3.0])
    if mode == "eq":
        return f
    if mode == "ulp-above":
        return nudge(f, 1)
    if mode == "ulp-below":
        return nudge(f, -1)
    if mode == "sliver-above":
        return f + t * rng.choice([0.5, 0.25, 0.75])
    if mode == "sliver-below":
        return f - t * rng.choice([0.5, 0.25, 0.75])
    if mode == "at-tol-above":
        return f + t
    if mode == "at-tol-below":
        return f - t
    if mode == "beyond-tol-above":
        return nudge(f + t, 1)
    if mode == "beyond-tol-below":
        return nudge(f - t, -1)
    if mode == "within-tol-above":
        return nudge(f + t, -1)
    if mode == "within-tol-below":
        return nudge(f - t, 1)
    return None


TOL_CHOICES = [None] * 14 + [{"tol": 0.25, "rel": 0.0}, {"tol": 0.0, "rel": 0.0}, {"tol": 2.0 ** -10, "rel": 2.0 ** -10},
                              {"tol": 0.5, "rel": 0.5}, {"tol": 1e-08, "rel": 1e-08}, {"tol": 0.0, "rel": 2.0 ** -20}, {"tol": 0.125},
                              {"rel": 0.25}, {"tol": 1e-12, "rel": 1e-12}, {"tol": 3.0, "rel": 0.0}, {"tol": 0.0},
                              {"tol": -1.0}, {"rel": -0.5, "tol": 1.0}]


def tolrel(tl):
    tl = tl or {}
    return float(tl.get("tol", 1e-15)), float(tl.get("rel", 1e-15))


def build_text(rng_fmt, lines_txt):
    """lines_txt: list of (lhs_text, cmp_text, rhs_text); rng_fmt: list of ints driving cosmetic formatting"""
    out = []
    for k, (l, c, r) in enumerate(lines_txt):
        f = rng_fmt[k % len(rng_fmt)] if rng_fmt else 0
        sp = " " if f % 2 == 0 else ""
        ind = " " * (f % 5)
        out.append("%s%s%s%s%s%s" % (ind, l, sp, c, sp, r))
        if f % 7 == 3:
            out.append("")
    return "\n".join(out)
