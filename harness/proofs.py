"""Building the Coq development and re-checking one property's theorems on every run."""
import os, re, subprocess, fcntl, time, glob

ROOT = os.path.dirname(os.path.dirname(os.path.abspath(__file__)))
COQ = os.path.join(ROOT, "coq")
WORK = os.path.join(ROOT, ".work")

FORBIDDEN = re.compile(
    r"\b(Admitted|admit|Axiom|Axioms|Parameter|Parameters|Conjecture|Conjectures|Abort All|"
    r"Admit Obligations|bypass_check|Unset Guard Checking|Unset Positivity Checking|"
    r"Unset Universe Checking|type-in-type|impredicative-set|native_compute)\b")
# `Variable`/`Hypothesis` are allowed inside Sections only; checked separately
SECTION_ONLY = re.compile(r"^\s*(Variable|Variables|Hypothesis|Hypotheses|Context)\b")

# axioms that the standard library itself declares and that the development may depend on
# (each is named in DESIGN.md section 4 and in every evidence file that reports it)
STDLIB_AXIOMS = {
    "ClassicalDedekindReals.sig_forall_dec",
    "ClassicalDedekindReals.sig_not_dec",
    "FunctionalExtensionality.functional_extensionality_dep",
    "Classical_Prop.classic",
    # Floats.FloatAxioms: the standard library's specification of the primitive binary64 comparison (PrimFloat.ltb computes SpecFloat.SFltb);
    # used by Common/FloatOrder.v to show that "strictly lower" on binary64 is transitive also in the presence of NaN
    "FloatAxioms.ltb_spec",
}


def strip_comments(src):
    out, depth, i = [], 0, 0
    while i < len(src):
        if src.startswith("(*", i):
            depth += 1; i += 2; continue
        if src.startswith("*)", i) and depth > 0:
            depth -= 1; i += 2; continue
        if depth == 0:
            out.append(src[i])
        elif src[i] == "\n":
            out.append("\n")
        i += 1
    return "".join(out)


def all_v_files():
    fs = []
    for d in ("Common", "Pure", "Core", "Props"):
        fs += sorted(glob.glob(os.path.join(COQ, d, "*.v")))
    return fs


def write_coqproject():
    lines = ["-Q . MV", ""]
    lines += [os.path.relpath(f, COQ) for f in all_v_files()]
    txt = "\n".join(lines) + "\n"
    p = os.path.join(COQ, "_CoqProject")
    old = open(p).read() if os.path.exists(p) else None
    if old != txt:
        with open(p, "w") as f:
            f.write(txt)
        return True
    return False


def setup_build():
    """MANIFEST.setup_cmd: full clean .vo build of everything under coq/ (keeps going past a file that fails, and then
    requires the theorem files of every registered property to have been built)"""
    import json
    os.makedirs(WORK, exist_ok=True)
    write_coqproject()
    subprocess.run(["coq_makefile", "-f", "_CoqProject", "-o", "Makefile"], cwd=COQ, capture_output=True, text=True)
    subprocess.run(["make", "clean"], cwd=COQ, capture_output=True, text=True)
    p = subprocess.run(["bash", "-c", "ulimit -s unlimited 2>/dev/null; timeout 3000 make -k -j16 2>&1 | tail -40"],
                       cwd=COQ, capture_output=True, text=True)
    print(p.stdout)
    man = json.load(open(os.path.join(ROOT, "MANIFEST.json")))
    missing = []
    for c in man["checks"]:
        vo = os.path.join(COQ, "Props", "Properties_%s.vo" % c["property_id"])
        if not os.path.exists(vo):
            missing.append(vo)
    if missing:
        print("NOT BUILT:", missing)
        return 1
    return 0


def ensure_built(clean=False, timeout=3000, targets=None):
    """(re)build every .vo that is out of date (full .vo build; never -vos). Serialised by a lock.
    targets: list of .v paths relative to coq/ -- build only these and what they depend on."""
    os.makedirs(WORK, exist_ok=True)
    t0 = time.time()
    with open(os.path.join(WORK, "build.lock"), "w") as lk:
        fcntl.flock(lk, fcntl.LOCK_EX)
        changed = write_coqproject()
        mk = os.path.join(COQ, "Makefile")
        if changed or not os.path.exists(mk):
            p = subprocess.run(["coq_makefile", "-f", "_CoqProject", "-o", "Makefile"], cwd=COQ,
                               capture_output=True, text=True)
            if p.returncode != 0:
                return False, p.stdout + p.stderr, time.time() - t0
        if clean:
            subprocess.run(["make", "clean"], cwd=COQ, capture_output=True, text=True)
        tg = " ".join(t[:-2] + ".vo" for t in (targets or []))
        p = subprocess.run(["bash", "-c", "ulimit -s unlimited 2>/dev/null; timeout %d make -j16 %s 2>&1" % (timeout, tg)],
                           cwd=COQ, capture_output=True, text=True)
        return p.returncode == 0, p.stdout[-6000:], time.time() - t0


def scan_forbidden(files=None):
    """returns list of (file, lineno, text) for forbidden vernacular"""
    bad = []
    for f in (files or all_v_files()):
        src = strip_comments(open(f).read())
        depth = 0
        for n, line in enumerate(src.split("\n"), 1):
            if re.match(r"^\s*Section\b", line):
                depth += 1
            elif re.match(r"^\s*End\b", line) and depth > 0:
                depth -= 1
            if FORBIDDEN.search(line):
                bad.append((f, n, line.strip()))
            if SECTION_ONLY.match(line) and depth == 0:
                bad.append((f, n, "outside a Section: " + line.strip()))
    return bad


_REQ = re.compile(r"(?:From\s+MV\s+Require\s+(?:Import|Export)\s+([^.]*(?:\.[A-Za-z_][^.\s]*)*)\.)|"
                  r"(?:Require\s+(?:Import|Export)\s+((?:MV\.[\w.]+\s*)+)\.)")


def deps_closure(relpath):
    """transitive closure of MV files required by coq/<relpath> (by parsing Require lines)"""
    seen, todo = [], [relpath]
    while todo:
        r = todo.pop()
        if r in seen:
            continue
        seen.append(r)
        src = strip_comments(open(os.path.join(COQ, r)).read())
        for m in re.finditer(r"From\s+MV\s+Require\s+(?:Import|Export)\s+([\w.\s]+?)\.\s", src):
            for name in m.group(1).split():
                cand = name.replace(".", "/") + ".v"
                if os.path.exists(os.path.join(COQ, cand)):
                    todo.append(cand)
        for m in re.finditer(r"Require\s+(?:Import|Export)\s+((?:MV\.[\w.]+\s*)+)\.\s", src):
            for name in m.group(1).split():
                cand = name[3:].replace(".", "/") + ".v"
                if os.path.exists(os.path.join(COQ, cand)):
                    todo.append(cand)
    return seen


_STMT = re.compile(r"^\s*(?:Local\s+|Global\s+|#\[[^\]]*\]\s*)*(Theorem|Lemma|Corollary|Example|Fact|Proposition|Remark)\s+([\w']+)", re.M)


def count_statements(relpaths):
    names = []
    for r in relpaths:
        src = strip_comments(open(os.path.join(COQ, r)).read())
        names += [(r, m.group(2)) for m in _STMT.finditer(src)]
    return names


def check_property_file(relpath, workdir, allowed_axioms=()):
    """re-run coqc on the Properties file (its dependencies are already built), capture Print Assumptions.
    returns dict(ok, theorems=[name], assumptions={name: [axioms] or []}, bad_axioms=[...], log)"""
    os.makedirs(workdir, exist_ok=True)
    src = os.path.join(COQ, relpath)
    out_vo = os.path.join(workdir, os.path.basename(relpath) + "o")
    cmd = "ulimit -s unlimited 2>/dev/null; exec timeout 900 coqc -q -Q %s MV -o %s %s" % (COQ, out_vo, src)
    p = subprocess.run(["bash", "-c", cmd], capture_output=True, text=True)
    log = p.stdout + p.stderr
    res = dict(ok=(p.returncode == 0), log=log[-4000:], assumptions={}, bad_axioms=[], theorems=[])
    if p.returncode != 0:
        return res
    text = strip_comments(open(src).read())
    asked = re.findall(r"Print\s+Assumptions\s+([\w'.]+)\s*\.", text)
    res["theorems"] = asked
    # split the output into one block per Print Assumptions, in order
    blocks = re.split(r"(?=Closed under the global context|Axioms:|Section Variables:)", p.stdout)
    blocks = [b for b in blocks if b.strip()]
    k = 0
    allowed = set(allowed_axioms) | STDLIB_AXIOMS
    for name in asked:
        if k >= len(blocks):
            res["ok"] = False
            res["log"] += "\nmissing Print Assumptions output for " + name
            break
        b = blocks[k]; k += 1
        if b.startswith("Closed under the global context"):
            res["assumptions"][name] = []
        else:
            if b.startswith("Section Variables:") and k < len(blocks) and blocks[k].startswith("Axioms:"):
                b = b + blocks[k]; k += 1
            ax = [a for a in re.findall(r"^([\w.']+)\s*:", b, re.M) if a not in ("Axioms", "Variables")]
            res["assumptions"][name] = ax
            for a in ax:
                if a not in allowed and not a.startswith(("PrimFloat.", "Uint63.", "PrimInt63.", "FloatOps.", "Sint63.")):
                    res["bad_axioms"].append((name, a))
    if res["bad_axioms"]:
        res["ok"] = False
    return res


def coqchk(relpath, timeout=1800):
    """independent re-check of the compiled property file and everything it depends on (thorough tier)"""
    mod = "MV." + relpath[:-2].replace("/", ".")
    cmd = "ulimit -s unlimited 2>/dev/null; exec timeout %d coqchk -silent -o -Q %s MV %s" % (timeout, COQ, mod)
    p = subprocess.run(["bash", "-c", cmd], capture_output=True, text=True)
    return p.returncode == 0, (p.stdout + p.stderr)[-4000:]
