"""Shared driver for the solver-API properties (C01-C07): runs operation scripts against the real mystic solvers under
outside-in instrumentation and prints the same scripts as Gallina terms for the machine model (coq/Core).

Instrumentation (no source hooks): the harness owns cost / constraints / penalty (recording wrappers), wraps the strategy
callables in mystic.strategy (records the trial vectors), wraps solver._decorate_objective per instance (records the
population after (re)decoration and the arguments handed to the decorated objective), and delimits Step calls.
"""
import math, random, types, json
import numpy as np
from harness.coqio import flit, lst, opt, blit, zlit, natlit

SOLVERS = ("DE", "DE2", "NM")
STRATEGIES = ["Best1Exp", "Best1Bin", "Rand1Exp", "Rand1Bin", "RandToBest1Exp", "RandToBest1Bin",
              "Best2Exp", "Best2Bin", "Rand2Exp", "Rand2Bin"]

# ---------------------------------------------------------------- user function families (harness-owned)

def make_cost(spec):
    k = spec["kind"]
    if k == "quad":       # separable quadratic
        a = spec["a"]
        return lambda x: float(sum((float(xi) - ai) ** 2 for xi, ai in zip(x, a)))
    if k == "coarse":     # few distinct values: ties everywhere
        q = spec["q"]
        return lambda x: float(sum(math.floor(abs(float(xi)) / q) for xi in x))
    if k == "const":
        return lambda x: float(spec["c"])
    if k == "infregion":  # +inf beyond a threshold on x0, quadratic elsewhere
        t = spec["t"]
        return lambda x: float("inf") if float(x[0]) > t else float(sum(float(xi) ** 2 for xi in x))
    if k == "l1":
        a = spec["a"]
        return lambda x: float(sum(abs(float(xi) - ai) for xi, ai in zip(x, a)))
    if k == "vector":     # array-valued, needs a reducer
        a = spec["a"]
        return lambda x: np.array([(float(xi) - ai) ** 2 for xi, ai in zip(x, a)])
    raise ValueError(k)


def make_cons(spec):
    """deterministic, idempotent constraints (pure or in place); spec None = identity"""
    k = spec["kind"]
    inplace = spec.get("inplace", False)
    def wrap(f):
        if not inplace:
            return lambda x: f(list(map(float, x)))
        def g(x):
            y = f(list(map(float, x)))
            for i, v in enumerate(y):
                x[i] = v
            return x
        return g
    if k == "ident":
        return wrap(lambda x: x)
    if k == "pin":
        i, c = spec["i"], spec["c"]
        return wrap(lambda x: [c if j == i % len(x) else v for j, v in enumerate(x)])
    if k == "clamp":
        lo, hi = spec["lo"], spec["hi"]
        return wrap(lambda x: [min(max(v, lo), hi) for v in x])
    if k == "grid":
        q = spec["q"]
        return wrap(lambda x: [round(v / q) * q for v in x])
    if k == "tie":
        return wrap(lambda x: [x[0]] * len(x))
    if k == "shift":     # NOT idempotent (negative tests only)
        d = spec["d"]
        return wrap(lambda x: [v + d for v in x])
    raise ValueError(k)


def make_pen(spec):
    k = spec["kind"]
    if k == "none":
        return lambda x: 0.0
    if k == "quad":
        c, w = spec["c"], spec["w"]
        return lambda x: float(w * max(0.0, float(x[0]) - c) ** 2)
    if k == "lin":
        c, w = spec["c"], spec["w"]
        return lambda x: float(w * abs(float(x[-1]) - c))
    raise ValueError(k)


# ---------------------------------------------------------------- recording

class Rec:
    def __init__(self):
        self.cost_calls = []      # (x tuple, y) every real call of the user's cost
        self.cons_tab = []        # (x, result)
        self.pen_tab = []
        self.obj_args = []        # arguments handed to the decorated objective (current Step)
        self.trials = []          # trial vectors produced by the strategy (current Step)
        self.deco_pop = None      # population right after a (re)decoration (current Step)
        self.cb = []              # callback arguments
        self.perms = []           # results of numpy.argsort during the current Step (Nelder-Mead)
        self.call_ctx = []        # per real cost call: which penalty / constraints / box / reducer were in force
        self.nstep = 0            # number of _Step executions so far


def _vec(x):
    return [float(v) for v in np.asarray(x, dtype=float).ravel()]


def _yv(y):
    if isinstance(y, (list, tuple, np.ndarray)) and np.ndim(y) > 0:
        return {"v": [float(v) for v in np.asarray(y, dtype=float).ravel()]}
    return {"s": float(y)}


def build_solver(kind, ndim, npop):
    from mystic.solvers import DifferentialEvolutionSolver, DifferentialEvolutionSolver2, NelderMeadSimplexSolver
    if kind == "DE":
        return DifferentialEvolutionSolver(ndim, npop)
    if kind == "DE2":
        return DifferentialEvolutionSolver2(ndim, npop)
    if kind == "NM":
        return NelderMeadSimplexSolver(ndim)
    raise ValueError(kind)


def instrument(solver, rec):
    """wrap solver._decorate_objective on the instance: record the population after decoration and the decorated objective's arguments"""
    orig = solver._decorate_objective
    def deco(cost, ExtraArgs=None):
        wrapped = orig(cost, ExtraArgs)
        rec.deco_pop = [_vec(p) for p in solver.population]
        def recording(x):
            rec.obj_args.append(_vec(x))
            return wrapped(x)
        solver._cost = (recording, solver._cost[1], solver._cost[2])
        return recording
    solver._decorate_objective = deco
    orig_step = solver._Step
    def counted(*a, **k):
        rec.nstep += 1
        return orig_step(*a, **k)
    solver._Step = counted


class StrategyPatch:
    """replace mystic.strategy.<Name> by recording wrappers for the duration of a run"""
    def __init__(self, rec):
        self.rec = rec
    def __enter__(self):
        import mystic.strategy as st
        self.saved = {}
        rec = self.rec
        for name in STRATEGIES:
            f = getattr(st, name)
            self.saved[name] = f
            def mk(f):
                def w(inst, candidate):
                    f(inst, candidate)
                    t = inst.trialSolution[candidate] if inst._map_solver else inst.trialSolution
                    rec.trials.append(_vec(t))
                w.__name__ = f.__name__
                w.__doc__ = f.__doc__
                return w
            setattr(st, name, mk(f))
        return self
    def __exit__(self, *a):
        import mystic.strategy as st
        for name, f in self.saved.items():
            setattr(st, name, f)


def snapshot(solver, rec, msg=None):
    sm = solver._stepmon
    def fl(v):
        return float(v)
    em = solver._evalmon
    try:
        emx = [_vec(x) for x in em._x]
        emy = [_yv(y) for y in em._y]
    except Exception:
        emx, emy = None, None
    return dict(
        pop=[_vec(p) for p in solver.population], popE=[fl(e) for e in solver.popEnergy],
        bestX=_vec(solver.bestSolution), bestE=fl(solver.bestEnergy),
        evals=int(solver.evaluations), gens=int(solver.generations),
        ehist=[fl(e) for e in solver.energy_history], shist=[_vec(x) for x in solver.solution_history],
        emx=emx, emy=emy, ncalls=len(rec.cost_calls), msg=msg_kind(msg), ncb=len(rec.cb), nstep=rec.nstep,
        term_now=_term_now(solver), exitreq=bool(solver._EARLYEXIT), nsm=len(solver._stepmon),
        maxiter=_lim(solver._maxiter), maxfun=_lim(solver._maxfun), live=bool(solver._live))


def _term_now(solver):
    try:
        return bool(solver._termination(solver))
    except Exception:
        return None


def _lim(v):
    if v is None:
        return None
    if v == "*":
        return "*"
    return int(v)


def msg_kind(m):
    if m is None or m is False or m == "":
        return "none"
    m = str(m)
    if m.startswith("EvaluationLimits"):
        return "limits"
    if m.startswith("SolverInterrupt"):
        return "interrupt"
    return "term"


def make_term(spec):
    import mystic.termination as T
    k = spec["kind"]
    if k == "never":
        return T.VTR(-1.0, 0.0)            # abs(...) <= -1 is never true
    if k == "vtr":
        return T.VTR(spec["tol"], spec["target"])
    if k == "cog":
        return T.ChangeOverGeneration(spec["tol"], spec["g"])
    if k == "ncog":
        return T.NormalizedChangeOverGeneration(spec["tol"], spec["g"])
    if k == "or":
        return T.Or(make_term(spec["a"]), make_term(spec["b"]))
    if k == "and":
        return T.And(make_term(spec["a"]), make_term(spec["b"]))
    raise ValueError(k)


def run_script(case):
    import io, contextlib, warnings
    with warnings.catch_warnings():
        warnings.simplefilter("ignore")
        with contextlib.redirect_stdout(io.StringIO()):
            return _run_script(case)


def _run_script(case):
    """case: dict(solver, ndim, npop, seed, strategy, ops=[...]).  Returns dict(trace=[snapshot per op], steps=[inputs], tables)."""
    from mystic.monitors import Monitor
    kind = case["solver"]
    rec = Rec()
    random.seed(case["seed"])
    np.random.seed(case["seed"] % (2 ** 31))
    solver = build_solver(kind, case["ndim"], case.get("npop", 4))
    instrument(solver, rec)
    if kind in ("DE", "DE2"):
        solver.strategy = case.get("strategy", "Best1Bin")
        solver.probability = case.get("cross", 0.9)
        solver.scale = case.get("scale", 0.8)
    trace, opres = [], []
    cb = lambda x: rec.cb.append(_vec(x))

    state = dict(inplace=False)
    def step_inputs():
        i = dict(trials=list(rec.trials), cands=list(rec.obj_args), deco=rec.deco_pop,
                 inplace=bool(state["inplace"] and not solver._useStrictRange),
                 perm=(rec.perms[-1] if rec.perms else None))
        rec.trials, rec.obj_args, rec.deco_pop, rec.perms = [], [], None, []
        return i

    def one_step(use_cb):
        kw = dict(callback=cb) if use_cb else {}
        m = solver.Step(**kw)
        return m, step_inputs()

    import numpy as _np
    _argsort = _np.argsort
    def argsort_rec(a, *args, **kw):
        r = _argsort(a, *args, **kw)
        if kind == "NM":
            rec.perms.append([int(v) for v in r])
        return r
    _np.argsort = argsort_rec
    try:
        return _run_ops(case, kind, rec, solver, trace, opres, cb, step_inputs, one_step, state)
    finally:
        _np.argsort = _argsort


def _run_ops(case, kind, rec, solver, trace, opres, cb, step_inputs, one_step, state):
    from mystic.monitors import Monitor
    with StrategyPatch(rec):
        for op in case["ops"]:
            o = op["op"]
            res = {}
            msg = None
            if o == "SetObjective":
                f = make_cost(op["cost"])
                state["cost_k"] = len(opres)
                def cost(x, f=f, k=len(opres)):
                    y = f(x)
                    rec.cost_calls.append((_vec(x), _yv(y), k))
                    rec.call_ctx.append(dict(pen_k=state.get("pen_k"), cons_k=state.get("cons_k"), box=state.get("box"),
                                             red=state.get("red"), nstep=rec.nstep))
                    return y
                solver.SetObjective(cost)
            elif o == "SetPenalty":
                p = make_pen(op["pen"])
                def pen(x, p=p, k=len(opres)):
                    y = p(x)
                    rec.pen_tab.append((_vec(x), float(y), k))
                    return y
                solver.SetPenalty(pen if op["pen"]["kind"] != "none" else None)
                state["pen_k"] = len(opres)
            elif o == "SetConstraints":
                c = make_cons(op["cons"])
                def cons(x, c=c, k=len(opres)):
                    xin = _vec(x)
                    y = c(x)
                    rec.cons_tab.append((xin, _vec(y), k))
                    return y
                solver.SetConstraints(cons if op["cons"]["kind"] != "ident" or op["cons"].get("inplace") else None)
                state["inplace"] = bool(op["cons"].get("inplace"))
                state["cons_k"] = len(opres)
            elif o == "SetStrictRanges":
                state["box"] = None if op["lo"] is None else len(opres)
                if op["lo"] is None:
                    solver.SetStrictRanges(False, False)
                else:
                    kw = {}
                    if op.get("tight") is not None:
                        kw["tight"] = op["tight"]
                    if op.get("clip") is not None:
                        kw["clip"] = op["clip"]
                    solver.SetStrictRanges(list(op["lo"]), list(op["hi"]), **kw)
            elif o == "SetReducer":
                state["red"] = op["red"]
                if op["red"] is None:
                    solver.SetReducer(None)
                elif op["red"] == "sum":
                    solver.SetReducer(lambda a, b: a + b)
                elif op["red"] == "max":
                    solver.SetReducer(lambda a, b: a if a >= b else b)
            elif o == "SetLimits":
                solver.SetEvaluationLimits(op["g"], op["e"], new=op["new"])
            elif o == "SetTermination":
                solver.SetTermination(make_term(op["term"]))
            elif o == "SetEvalMonitor":
                solver.SetEvaluationMonitor(Monitor(), new=op["new"])
            elif o == "SetStepMonitor":
                solver.SetGenerationMonitor(Monitor(), new=op["new"])
            elif o == "SetRandomInitialPoints":
                solver.SetRandomInitialPoints(list(op["lo"]), list(op["hi"]))
                res["pop"] = [_vec(p) for p in solver.population]
            elif o == "SetInitialPoints":
                solver.SetInitialPoints(list(op["x0"]))
                res["pop"] = [_vec(p) for p in solver.population]
            elif o == "Step":
                msg, i = one_step(op.get("cb", False))
                res["inputs"] = [i]
            elif o == "Solve":
                ins = []
                origStep = solver.Step
                def stepper(*a, **k):
                    m = origStep(*a, **k)
                    ins.append(step_inputs())
                    return m
                solver.Step = stepper
                try:
                    kw = dict(callback=cb) if op.get("cb", False) else {}
                    solver.Solve(**kw)
                finally:
                    del solver.Step
                # decoration done by Solve's own bootstrap belongs to the first Step
                res["inputs"] = ins
                msg = solver.Terminated(info=True) or None
            elif o == "Finalize":
                solver.Finalize()
            elif o == "RequestExit":
                solver._EARLYEXIT = True
            else:
                raise ValueError(o)
            # anything recorded outside a Step (none expected) is attached to the next one
            opres.append(res)
            trace.append(snapshot(solver, rec, msg))
    return dict(trace=trace, opres=opres,
                calls=[dict(x=x, y=y, k=k, **c) for (x, y, k), c in zip(rec.cost_calls, rec.call_ctx)],
                cons_tab=[list(t) for t in rec.cons_tab], pen_tab=[list(t) for t in rec.pen_tab], cb=rec.cb)


# ---------------------------------------------------------------- Gallina printing

def fl(xs):
    return "(%s : list float)" % lst(xs, flit)


def fll(xss):
    return "(%s : list (list float))" % lst([lst(r, flit) for r in xss])


def yv(y):
    return "(YS NumF %s)" % flit(y["s"]) if "s" in y else "(YV NumF %s)" % fl(y["v"])


PREAMBLE = r"""
From Coq Require Import ZArith.
From MV Require Import Common.Num Core.Machine Core.DE Core.NM Core.Exec.
From Coq Require Import PrimFloat.
Open Scope Z_scope.
"""


def term_coq(t):
    k = t["kind"]
    if k == "never":
        return "(TVTR NumF %s %s)" % (flit(-1.0), flit(0.0))
    if k == "vtr":
        return "(TVTR NumF %s %s)" % (flit(t["tol"]), flit(t["target"]))
    if k == "cog":
        return "(TCOG NumF %s %s)" % (flit(t["tol"]), natlit(t["g"]))
    if k == "ncog":
        return "(TNCOG NumF %s %s)" % (flit(t["tol"]), natlit(t["g"]))
    if k == "or":
        return "(TOr NumF %s %s)" % (term_coq(t["a"]), term_coq(t["b"]))
    if k == "and":
        return "(TAnd NumF %s %s)" % (term_coq(t["a"]), term_coq(t["b"]))
    raise ValueError(k)


def modelled(case):
    """is the whole script inside the modelled fragment?"""
    for op in case["ops"]:
        if op["op"] == "SetStrictRanges" and (op.get("tight") is not None or op.get("clip") is not None):
            return False
    return case["solver"] in SOLVERS


def script_coq(case, out):
    """Gallina term: list of ops for the machine (tables inlined as functions)"""
    kind = case["solver"]
    def tab_cost(k):
        return "(%s : list (list float * yval NumF))" % lst(["(%s, %s)" % (fl(c["x"]), yv(c["y"])) for c in out["calls"] if c["k"] == k])
    def tab_cons(k):
        return "(%s : list (list float * list float))" % lst(["(%s, %s)" % (fl(a), fl(b)) for a, b, kk in out["cons_tab"] if kk == k])
    def tab_pen(k):
        return "(%s : list (list float * float))" % lst(["(%s, %s)" % (fl(a), flit(b)) for a, b, kk in out["pen_tab"] if kk == k])
    inmk = "mk_de_in" if kind in ("DE", "DE2") else "mk_nm_in"
    def inp(i):
        if kind in ("DE", "DE2"):
            return "(%s %s %s)" % (inmk, fll(i["trials"]), opt(i["deco"], fll))
        return "(%s %s %s %s %s)" % (inmk, fll(i["cands"]), opt(i["deco"], fll), blit(i.get("inplace", False)),
                                    "(%s : list nat)" % lst(i.get("perm") or [], natlit))
    ops = []
    for k, (op, res) in enumerate(zip(case["ops"], out["opres"])):
        o = op["op"]
        if o == "SetObjective":
            ops.append("@OSetObjective NumF _ (lookup_y %s)" % tab_cost(k))
        elif o == "SetPenalty":
            ops.append("@OSetPenalty NumF _ (lookup_e %s)" % tab_pen(k) if op["pen"]["kind"] != "none" else "@OSetPenalty NumF _ (fun _ => 0%float)")
        elif o == "SetConstraints":
            ident = op["cons"]["kind"] == "ident" and not op["cons"].get("inplace")
            ops.append("@OSetConstraints NumF _ (fun x => x)" if ident else "@OSetConstraints NumF _ (lookup_v %s)" % tab_cons(k))
        elif o == "SetStrictRanges":
            ops.append("@OSetStrictRanges NumF _ %s" % ("None" if op["lo"] is None else "(Some (%s, %s))" % (fl(op["lo"]), fl(op["hi"]))))
        elif o == "SetReducer":
            ops.append("@OSetReducer NumF _ %s" % {None: "None", "sum": "(Some red_sum)", "max": "(Some red_max)"}[op["red"]])
        elif o == "SetLimits":
            ops.append("@OSetLimits NumF _ %s %s %s" % (opt(op["g"], zlit), opt(op["e"], zlit), blit(op["new"])))
        elif o == "SetTermination":
            ops.append("@OSetTermination NumF _ %s" % term_coq(op["term"]))
        elif o == "SetEvalMonitor":
            ops.append("@OSetEvalMonitor NumF _ %s" % blit(op["new"]))
        elif o == "SetStepMonitor":
            ops.append("@OSetStepMonitor NumF _ %s" % blit(op["new"]))
        elif o in ("SetRandomInitialPoints", "SetInitialPoints"):
            ops.append("@OSetPopulation NumF _ %s" % fll(res["pop"]))
        elif o == "Step":
            ops.append("@OStep NumF _ %s %s" % (blit(op.get("cb", False)), inp(res["inputs"][0])))
        elif o == "Solve":
            ops.append("@OSolve NumF _ %s %s (%s nil None%s)" % (blit(op.get("cb", False)), lst([inp(i) for i in res["inputs"]]), inmk, "" if kind in ("DE", "DE2") else " false nil"))
        elif o == "Finalize":
            ops.append("@OFinalize NumF _")
        elif o == "RequestExit":
            ops.append("@ORequestExit NumF _")
    lets = ""
    return lets, "[%s]" % "; ".join("(%s)" % o for o in ops)


def obs_coq(snap, with_emon):
    """expected observable record"""
    em = "None"
    if with_emon and snap["emx"] is not None:
        em = "(Some %s)" % lst(["(%s, %s)" % (fl(x), yv(y)) for x, y in zip(snap["emx"], snap["emy"])])
    return "(mk_obs %s %s %s %s %s %s %s %s %s %s %s)" % (
        fll(snap["pop"]), fl(snap["popE"]), fl(snap["bestX"]), flit(snap["bestE"]), zlit(snap["evals"]), zlit(snap["gens"]),
        fl(snap["ehist"]), fll(snap["shist"]), em, {"none": "MNone", "limits": "MLimits", "interrupt": "MInterrupt", "term": "MTerm"}[snap["msg"]],
        zlit(snap["ncalls"]))


def check_term(case, out, mask):
    """bool term: the machine reproduces the observed trace (mask selects the compared observables)"""
    kind = case["solver"]
    lets, ops = script_coq(case, out)
    runner = {"DE": "run_de false", "DE2": "run_de true", "NM": "run_nm"}[kind]
    exp = lst([obs_coq(s, True) for s in out["trace"]])
    calls = "(%s : list (list float * yval NumF))" % lst(["(%s, %s)" % (fl(c["x"]), yv(c["y"])) for c in out["calls"]])
    cbs = fll(out["cb"])
    return "(%s check_trace %s (%s %s %s %s) %s %s %s)" % (
        lets, mask, runner, natlit(case.get("npop", 4)), natlit(case["ndim"]), ops, exp, calls, cbs)


def debug_term(case, out):
    kind = case["solver"]
    lets, ops = script_coq(case, out)
    runner = {"DE": "run_de false", "DE2": "run_de true", "NM": "run_nm"}[kind]
    exp = lst([obs_coq(s, True) for s in out["trace"]])
    calls = "(%s : list (list float * yval NumF))" % lst(["(%s, %s)" % (fl(c["x"]), yv(c["y"])) for c in out["calls"]])
    return "(%s diag_trace (%s %s %s %s) %s %s %s)" % (lets, runner, natlit(case.get("npop", 4)), natlit(case["ndim"]), ops, exp, calls, fll(out["cb"]))
