"""Shared driver for the solver-API properties (C01-C07): runs operation scripts against the real mystic solvers under
outside-in instrumentation and prints the same scripts as Gallina terms for the machine model (coq/Core).

Instrumentation (no source hooks): the harness owns cost / constraints / penalty (recording wrappers), wraps the strategy
callables in mystic.strategy (records the trial vectors), wraps solver._decorate_objective per instance (records the
population after (re)decoration and the arguments handed to the decorated objective), and delimits Step calls.
"""
import math, random, types, json
import numpy as np
from harness.coqio import flit, lst, opt, blit, zlit, natlit

SOLVERS = ("DE", "DE2", "NM")
MODELLED = ("DE", "DE2", "NM", "POW")
STRATEGIES = ["Best1Exp", "Best1Bin", "Rand1Exp", "Rand1Bin", "RandToBest1Exp", "RandToBest1Bin",
              "Best2Exp", "Best2Bin", "Rand2Exp", "Rand2Bin"]

# ---------------------------------------------------------------- user function families (harness-owned)

def make_cost(spec):
    k = spec["kind"]
    if k == "quad":       # separable quadratic
        a = spec["a"]
        return lambda x: float(sum((float(xi) - ai) ** 2 for xi, ai in zip(x, a)))
    if k == "coarse":     # few distinct values: ties everywhere
        q = spec["q"]
        return lambda x: float(sum(math.floor(abs(float(xi)) / q) for xi in x))
    if k == "const":
        return lambda x: float(spec["c"])
    if k == "infregion":  # +inf beyond a threshold on x0, quadratic elsewhere
        t = spec["t"]
        return lambda x: float("inf") if float(x[0]) > t else float(sum(float(xi) ** 2 for xi in x))
    if k == "l1":
        a = spec["a"]
        return lambda x: float(sum(abs(float(xi) - ai) for xi, ai in zip(x, a)))
    if k == "vector":     # array-valued, needs a reducer
        a = spec["a"]
        return lambda x: np.array([(float(xi) - ai) ** 2 for xi, ai in zip(x, a)])
    raise ValueError(k)


def make_cons(spec):
    """deterministic, idempotent constraints (pure or in place); spec None = identity"""
    k = spec["kind"]
    inplace = spec.get("inplace", False)
    def wrap(f):
        if not inplace:
            return lambda x: f(list(map(float, x)))
        def g(x):
            y = f(list(map(float, x)))
            for i, v in enumerate(y):
                x[i] = v
            return x
        return g
    if k == "ident":
        return wrap(lambda x: x)
    if k == "pin":
        i, c = spec["i"], spec["c"]
        return wrap(lambda x: [c if j == i % len(x) else v for j, v in enumerate(x)])
    if k == "clamp":
        lo, hi = spec["lo"], spec["hi"]
        return wrap(lambda x: [min(max(v, lo), hi) for v in x])
    if k == "grid":
        q = spec["q"]
        return wrap(lambda x: [round(v / q) * q for v in x])
    if k == "tie":
        return wrap(lambda x: [x[0]] * len(x))
    if k == "affine":    # x[j] = a*x[i] + b, i != j: an affine tie (idempotent: x[i] is left alone)
        i, j, a, b = spec["i"], spec["j"], spec["a"], spec["b"]
        return wrap(lambda x: [a * x[i % len(x)] + b if q == j % len(x) else v for q, v in enumerate(x)] if len(x) > 1 else x)
    if k == "shift":     # NOT idempotent (negative tests only)
        d = spec["d"]
        return wrap(lambda x: [v + d for v in x])
    raise ValueError(k)


def make_pen(spec):
    k = spec["kind"]
    if k == "none":
        return lambda x: 0.0
    if k == "quad":
        c, w = spec["c"], spec["w"]
        return lambda x: float(w * max(0.0, float(x[0]) - c) ** 2)
    if k == "lin":
        c, w = spec["c"], spec["w"]
        return lambda x: float(w * abs(float(x[-1]) - c))
    if k == "slin":       # a signed (Lagrange-type) term: negative on one side
        c, w = spec["c"], spec["w"]
        return lambda x: float(w * (float(x[0]) - c))
    raise ValueError(k)


# ---------------------------------------------------------------- recording
# Everything attached to a solver is picklable (callable classes that find their recorder through a registry by tag),
# so that solvers can be copied / saved / restored with the instrumentation in place; the solver classes are patched at
# class level for the duration of a run (no source hooks).

REG = {}          # tag -> Rec
CURRENT = []      # stack of tags whose _Step is executing (for numpy.argsort)
CURSOLVER = []    # stack of solver instances inside _Step / _decorate_objective (for constraints.and_)


class Rec:
    def __init__(self, tabs=None):
        self.cost_calls = []      # (x, y, k) every real call of the user's cost by this solver
        self.call_ctx = []        # per real cost call: which penalty / constraints / box / reducer were in force
        self.tabs = tabs if tabs is not None else dict(cons=[], pen=[])   # shared per case: (x, result, k)
        self.obj_args = []        # arguments handed to the decorated objective (current Step)
        self.trials = []          # trial vectors produced by the strategy (current Step)
        self.deco_pop = None      # population right after a (re)decoration (current Step)
        self.cb = []              # callback arguments
        self.perms = []           # results of numpy.argsort during the current Step (Nelder-Mead)
        self.nstep = 0            # number of _Step executions so far
        self.state = dict(inplace=False)
        self.solve_inputs = None  # list collecting per-Step inputs while Solve runs
        self.ls = []              # Powell: line searches of the current Step: dict(probes=[...], ret=index)
        self.cur_ls = None

    def fork(self):
        r = Rec(self.tabs)
        r.cost_calls = list(self.cost_calls); r.call_ctx = list(self.call_ctx)
        r.cb = list(self.cb); r.nstep = self.nstep; r.state = dict(self.state)
        return r

    @property
    def cons_tab(self):
        return self.tabs["cons"]

    @property
    def pen_tab(self):
        return self.tabs["pen"]


def _vec(x):
    return [float(v) for v in np.asarray(x, dtype=float).ravel()]


def _yv(y):
    if isinstance(y, (list, tuple, np.ndarray)) and np.ndim(y) > 0:
        return {"v": [float(v) for v in np.asarray(y, dtype=float).ravel()]}
    return {"s": float(y)}


class _Fn(object):
    def __getstate__(self):
        d = dict(self.__dict__); d["_f"] = None; return d


class CostFn(_Fn):
    def __init__(self, spec, k, tag):
        self.spec, self.k, self.tag, self._f = spec, k, tag, None
    def __call__(self, x):
        if self._f is None:
            self._f = make_cost(self.spec)
        y = self._f(x)
        rec = REG.get(self.tag)
        if rec is not None:
            st = rec.state
            rec.cost_calls.append((_vec(x), _yv(y), self.k))
            rec.call_ctx.append(dict(pen_k=st.get("pen_k"), cons_k=st.get("cons_k"), box=st.get("box"),
                                     red=st.get("red"), nstep=rec.nstep))
        return y


class ConsFn(_Fn):
    def __init__(self, spec, k, tag):
        self.spec, self.k, self.tag, self._f = spec, k, tag, None
    def __call__(self, x):
        if self._f is None:
            self._f = make_cons(self.spec)
        xin = _vec(x)
        y = self._f(x)
        rec = REG.get(self.tag)
        if rec is not None:
            rec.tabs["cons"].append((xin, _vec(y), self.k))
        return y


class PenFn(_Fn):
    def __init__(self, spec, k, tag):
        self.spec, self.k, self.tag, self._f = spec, k, tag, None
    def __call__(self, x):
        if self._f is None:
            self._f = make_pen(self.spec)
        y = self._f(x)
        rec = REG.get(self.tag)
        if rec is not None:
            rec.tabs["pen"].append((_vec(x), float(y), self.k))
        return y


class ObjRec(object):
    """recording wrapper around the decorated objective"""
    def __init__(self, inner, tag):
        self.inner, self.tag = inner, tag
    def __call__(self, x):
        rec = REG.get(self.tag)
        if rec is not None:
            if rec.cur_ls is not None:
                rec.cur_ls.append(_vec(x))
            else:
                rec.obj_args.append(_vec(x))
        return self.inner(x)


class CbFn(object):
    def __init__(self, tag):
        self.tag = tag
    def __call__(self, x):
        rec = REG.get(self.tag)
        if rec is not None:
            rec.cb.append(_vec(x))


def _red_sum(a, b):
    return a + b


def _red_min(a, b):
    return b if b < a else a


def _red_max(a, b):
    return a if a >= b else b


def _red_sumsq(ys):
    """an ARRAY-LIKE reducer (SetReducer(..., arraylike=True)) that is not the identity on a single value"""
    t = 0.0
    for v in ys:
        t = t + float(v) * float(v)
    return t


def solver_classes():
    from mystic.solvers import DifferentialEvolutionSolver, DifferentialEvolutionSolver2, NelderMeadSimplexSolver, PowellDirectionalSolver
    return dict(DE=DifferentialEvolutionSolver, DE2=DifferentialEvolutionSolver2, NM=NelderMeadSimplexSolver, POW=PowellDirectionalSolver)


def build_solver(kind, ndim, npop):
    cls = solver_classes()[kind]
    return cls(ndim, npop) if kind in ("DE", "DE2") else cls(ndim)


def retag(solver, tag):
    """point the instrumentation carried by a copied / restored solver at its own recorder"""
    solver._verif_tag = tag
    c = getattr(solver, "_cost", None)
    if c:
        if isinstance(c[0], ObjRec):
            c[0].tag = tag
        if isinstance(c[1], CostFn):
            c[1].tag = tag


def step_inputs(solver, rec):
    i = dict(trials=list(rec.trials), cands=list(rec.obj_args), deco=rec.deco_pop,
             inplace=bool(rec.state.get("inplace") and not solver._useStrictRange),
             perm=(rec.perms[-1] if rec.perms else None), ls=list(rec.ls), ndim=len(solver.population[0]))
    rec.trials, rec.obj_args, rec.deco_pop, rec.perms, rec.ls = [], [], None, [], []
    return i


class Instrumented:
    """class-level patches, active for the duration of a run"""
    def __enter__(self):
        import mystic.strategy as st
        self.saved = []
        def patch(obj, name, new):
            self.saved.append((obj, name, obj.__dict__[name] if isinstance(obj, type) else getattr(obj, name)))
            setattr(obj, name, new)
        for name in STRATEGIES:
            f = getattr(st, name)
            def mk(f):
                def w(inst, candidate):
                    f(inst, candidate)
                    rec = REG.get(getattr(inst, "_verif_tag", None))
                    if rec is not None:
                        t = inst.trialSolution[candidate] if inst._map_solver else inst.trialSolution
                        rec.trials.append(_vec(t))
                w.__name__ = f.__name__
                w.__doc__ = f.__doc__
                return w
            patch(st, name, mk(f))
        for kind, cls in solver_classes().items():
            if "_decorate_objective" in cls.__dict__:
                orig = cls.__dict__["_decorate_objective"]
                def mkd(orig):
                    def deco(self, cost, ExtraArgs=None):
                        CURSOLVER.append(self)
                        try:
                            wrapped = orig(self, cost, ExtraArgs)
                        finally:
                            CURSOLVER.pop()
                        tag = getattr(self, "_verif_tag", None)
                        rec = REG.get(tag)
                        if rec is None:
                            return wrapped
                        rec.deco_pop = [_vec(p) for p in self.population]
                        w = ObjRec(wrapped, tag)
                        self._cost = (w, self._cost[1], self._cost[2])
                        return w
                    return deco
                patch(cls, "_decorate_objective", mkd(orig))
            orig_step = cls.__dict__["_Step"]
            def mks(orig_step):
                def counted(self, *a, **k):
                    tag = getattr(self, "_verif_tag", None)
                    rec = REG.get(tag)
                    if rec is not None:
                        rec.nstep += 1
                    CURRENT.append(tag); CURSOLVER.append(self)
                    try:
                        return orig_step(self, *a, **k)
                    finally:
                        CURRENT.pop(); CURSOLVER.pop()
                return counted
            patch(cls, "_Step", mks(orig_step))
        from mystic.abstract_solver import AbstractSolver
        origS = AbstractSolver.__dict__["Step"]
        def Step(self, *a, **k):
            m = origS(self, *a, **k)
            rec = REG.get(getattr(self, "_verif_tag", None))
            if rec is not None and rec.solve_inputs is not None:
                rec.solve_inputs.append(step_inputs(self, rec))
            return m
        patch(AbstractSolver, "Step", Step)
        # the abstract _decorate_objective is used by Powell
        origD = AbstractSolver.__dict__["_decorate_objective"]
        def decoA(self, cost, ExtraArgs=None):
            CURSOLVER.append(self)
            try:
                wrapped = origD(self, cost, ExtraArgs)
            finally:
                CURSOLVER.pop()
            tag = getattr(self, "_verif_tag", None)
            rec = REG.get(tag)
            if rec is None:
                return wrapped
            rec.deco_pop = [_vec(p) for p in self.population]
            w = ObjRec(wrapped, tag)
            self._cost = (w, self._cost[1], self._cost[2])
            return w
        patch(AbstractSolver, "_decorate_objective", decoA)
        # tight / clip strict ranges: the solvers apply constraints.and_(user constraints, bounds function, onfail=bounds function) wherever
        # they apply "the constraints": that composite is recorded as the constraints table of the configuration in force
        import mystic.constraints as mc
        orig_and = mc.and_
        def and_rec(*cs, **kw):
            f = orig_and(*cs, **kw)
            sv = CURSOLVER[-1] if CURSOLVER else None
            if sv is None or "onfail" not in kw:
                return f
            if not (getattr(sv, "_useTightRange", None) or getattr(sv, "_useClipRange", None) is not None):
                return f
            rec = REG.get(getattr(sv, "_verif_tag", None))
            if rec is None:
                return f
            k = "eff:%s" % rec.state.get("eff_k")
            def g(x):
                xin = _vec(x)
                y = f(x)
                rec.tabs["cons"].append((xin, _vec(y), k))
                return y
            return g
        patch(mc, "and_", and_rec)
        import mystic.scipy_optimize as so
        orig_ls = so._linesearch_powell
        def ls_rec(func, p, xi, *a, **k):
            rec = REG.get(getattr(func, "tag", None)) if isinstance(func, ObjRec) else None
            if rec is None:
                return orig_ls(func, p, xi, *a, **k)
            rec.cur_ls = []
            try:
                r = orig_ls(func, p, xi, *a, **k)
            finally:
                probes, rec.cur_ls = rec.cur_ls, None
            xr = _vec(r[1])
            idx = max([j for j, q in enumerate(probes) if q == xr] or [-1])
            rec.ls.append(dict(probes=probes, ret=idx, x=xr))
            return r
        patch(so, "_linesearch_powell", ls_rec)
        _argsort = np.argsort
        def argsort_rec(a, *args, **kw):
            r = _argsort(a, *args, **kw)
            if CURRENT:
                rec = REG.get(CURRENT[-1])
                if rec is not None:
                    rec.perms.append([int(v) for v in r])
            return r
        patch(np, "argsort", argsort_rec)
        return self

    def __exit__(self, *a):
        for obj, name, old in reversed(self.saved):
            setattr(obj, name, old)


def snapshot(solver, rec, msg=None):
    def fl(v):
        return float(v)
    em = solver._evalmon
    try:
        emx = [_vec(x) for x in em._x]
        emy = [_yv(y) for y in em._y]
    except Exception:
        emx, emy = None, None
    return dict(
        pop=[_vec(p) for p in solver.population], popE=[fl(e) for e in solver.popEnergy],
        bestX=_vec(solver.bestSolution), bestE=fl(solver.bestEnergy),
        evals=int(solver.evaluations), gens=int(solver.generations),
        ehist=[fl(e) for e in solver.energy_history], shist=[_vec(x) for x in solver.solution_history],
        emx=emx, emy=emy, ncalls=len(rec.cost_calls), msg=msg_kind(msg), ncb=len(rec.cb), nstep=rec.nstep,
        term_now=_term_now(solver, rec.state.get("pending_term")), exitreq=bool(solver._EARLYEXIT), nsm=len(solver._stepmon),
        maxiter=_lim(solver._maxiter), maxfun=_lim(solver._maxfun), live=bool(solver._live),
        synced=(solver._energy_history is None),
        # the trial solution(s) the last iteration left behind (read by terminations such as SolutionImprovement): state a snapshot has to carry
        trial=_trial(solver),
        # the monitors' parallel lists stay parallel (one id / info slot per record)
        mon_shape=[len(getattr(solver._stepmon, "_x", ())), len(getattr(solver._stepmon, "_y", ())), len(getattr(solver._stepmon, "_id", ())),
                   len(getattr(em, "_x", ())), len(getattr(em, "_y", ())), len(getattr(em, "_id", ()))])


def _trial(solver):
    try:
        t = np.asarray(solver.trialSolution, dtype=float)
        return [float(v) for v in t.ravel()] + [float(d) for d in t.shape]
    except Exception:
        return None


def _term_now(solver, pending=None):
    """the verdict of the termination condition that the next Step will consult (a condition waiting to be handed to it as keyword included)"""
    try:
        return bool((pending or solver._termination)(solver))
    except Exception:
        return None


def _lim(v):
    if v is None:
        return None
    if v == "*":
        return "*"
    return int(v)


def msg_kind(m):
    if m is None or m is False or m == "":
        return "none"
    m = str(m)
    if m.startswith("EvaluationLimits"):
        return "limits"
    if m.startswith("SolverInterrupt"):
        return "interrupt"
    return "term"


def make_term(spec):
    import mystic.termination as T
    k = spec["kind"]
    if k == "never":
        return T.VTR(-1.0, 0.0)            # abs(...) <= -1 is never true
    if k == "vtr":
        return T.VTR(spec["tol"], spec["target"])
    if k == "cog":
        return T.ChangeOverGeneration(spec["tol"], spec["g"])
    if k == "ncog":
        return T.NormalizedChangeOverGeneration(spec["tol"], spec["g"])
    if k == "or":
        return T.Or(make_term(spec["a"]), make_term(spec["b"]))
    if k == "and":
        return T.And(make_term(spec["a"]), make_term(spec["b"]))
    if k == "solimp":            # (C06 only, outside the machine model) a condition on the trial solution(s) left behind by the last iteration
        return T.SolutionImprovement(spec["tol"])
    if k == "or_collapse":       # (C06 only, outside the machine model) a condition that keeps a mask and drives Collapse
        return T.Or(make_term(spec["a"]), T.CollapseAt(None, spec["tol"], spec["g"]))
    raise ValueError(k)


_TAGS = [0]


def new_tag():
    _TAGS[0] += 1
    return "s%d" % _TAGS[0]


def apply_op(solver, rec, op, k, case_tag):
    """apply one API operation (index k in its script) to a real solver; returns (result dict, stop message)"""
    from mystic.monitors import Monitor
    o = op["op"]
    res, msg = {}, None
    tag = solver._verif_tag
    st = rec.state
    if st.get("pending_term") is not None and o != "Step":
        solver.SetTermination(st.pop("pending_term"))            # no Step follows directly: an ordinary SetTermination call after all
    if st.get("pending_pen") is not None and o != "Step":
        solver.SetPenalty(st.pop("pending_pen")[0])              # no Step follows directly: an ordinary call after all
    if st.get("pending_emon") is not None and o != "Step":
        solver.SetEvaluationMonitor(st.pop("pending_emon"))
    if st.get("pending_cons") is not None and o != "Step":
        solver.SetConstraints(st.pop("pending_cons")[0])       # no Step follows directly: an ordinary SetConstraints call after all
        st.pop("pending_prev", None)
    if o == "SetObjective":
        st["cost_k"] = k
        solver.SetObjective(CostFn(op["cost"], k, tag))
    elif o == "SetPenalty":
        pf = PenFn(op["pen"], k, case_tag) if op["pen"]["kind"] != "none" else None
        if op.get("defer") and pf is not None:
            st["pending_pen"] = (pf, st.get("pen_k"))        # handed to the next Step as its `penalty=` keyword
        else:
            solver.SetPenalty(pf)
        st["pen_k"] = k
    elif o == "SetConstraints":
        ident = op["cons"]["kind"] == "ident" and not op["cons"].get("inplace")
        if op.get("defer"):
            st["pending_cons"] = (None if ident else ConsFn(op["cons"], k, case_tag),)    # handed to the next Step as a keyword
            st["pending_prev"] = (st.get("inplace"), st.get("cons_k"), st.get("eff_k"))
        else:
            solver.SetConstraints(None if ident else ConsFn(op["cons"], k, case_tag))
        st["inplace"] = bool(op["cons"].get("inplace"))
        st["cons_k"] = k
        st["eff_k"] = k
    elif o == "SetStrictRanges":
        st["box"] = None if op["lo"] is None else k
        st["eff_k"] = k
        if op["lo"] is None:
            solver.SetStrictRanges(False, False)
        else:
            kw = {}
            if op.get("tight") is not None:
                kw["tight"] = op["tight"]
            if op.get("clip") is not None:
                kw["clip"] = op["clip"]
            solver.SetStrictRanges(list(op["lo"]), list(op["hi"]), **kw)
    elif o == "SetReducer":
        st["red"] = op["red"]
        if op["red"] == "sumsq":
            solver.SetReducer(_red_sumsq, arraylike=True)
        else:
            solver.SetReducer({None: None, "sum": _red_sum, "max": _red_max, "min": _red_min}[op["red"]])
    elif o == "SetLimits":
        solver.SetEvaluationLimits(op["g"], op["e"], new=op["new"])
    elif o == "SetTermination":
        if op.get("defer"):
            st["pending_term"] = make_term(op["term"])      # handed to the next Step as its `termination=` argument
        else:
            solver.SetTermination(make_term(op["term"]))
    elif o == "SetEvalMonitor":
        if op.get("defer") and not op.get("same") and not op["new"]:
            st["pending_emon"] = Monitor()                   # handed to the next Step as its `EvaluationMonitor=` keyword
        elif op.get("prefill"):      # (C07 only, outside the machine model) a monitor that already holds records of an earlier run
            m_ = Monitor()
            for j in range(op["prefill"]):
                m_([float(j)] * len(solver.population[0]), 1000.0 + j)
            solver.SetEvaluationMonitor(m_, new=op["new"])
        else:
            solver.SetEvaluationMonitor(solver._evalmon if op.get("same") else Monitor(), new=op["new"])
    elif o == "SetStepMonitor":
        if op.get("log_k"):       # (C06 only, outside the machine model) a logging monitor that scales the costs it records
            import os as _os
            from mystic.monitors import LoggingMonitor
            d_ = _os.path.join(_os.path.dirname(_os.path.dirname(_os.path.abspath(__file__))), ".work", "logs")
            _os.makedirs(d_, exist_ok=True)
            solver.SetGenerationMonitor(LoggingMonitor(1, _os.path.join(d_, "c06_%d_%s.txt" % (_os.getpid(), tag)), k=op["log_k"]), new=op["new"])
        else:
            solver.SetGenerationMonitor(Monitor(), new=op["new"])
    elif o == "SetRandomInitialPoints":
        if op["lo"] is None:
            solver.SetRandomInitialPoints()
        else:
            solver.SetRandomInitialPoints(list(op["lo"]), list(op["hi"]))
        res["pop"] = [_vec(p) for p in solver.population]
    elif o == "SetInitialPoints":
        if op.get("how") == "multinormal":      # (C07) drawn from numpy's global generator around x0
            solver.SetMultinormalInitialPoints(list(op["x0"]), op.get("var", 0.25))
        else:
            solver.SetInitialPoints(list(op["x0"]))
        res["pop"] = [_vec(p) for p in solver.population]
    elif o == "Step":
        kw = dict(callback=CbFn(tag)) if op.get("cb", False) else {}
        kw.update(_de_kwds(op))
        pend = st.pop("pending_cons", None)
        if pend is not None:
            kw["constraints"] = pend[0]
        if st.get("pending_term") is not None:
            kw["termination"] = st.pop("pending_term")           # Step(termination=T): registered before the check that precedes the iteration
        ppen, pemon = st.pop("pending_pen", None), st.pop("pending_emon", None)
        if ppen is not None:
            kw["penalty"] = ppen[0]
        if pemon is not None:
            kw["EvaluationMonitor"] = pemon
        msg = solver.Step(**kw)
        if ppen is not None and solver._penalty is not ppen[0]:
            st["pen_k"] = ppen[1]; res["kw_dropped"] = True      # the Step refused to start: its keywords were never read
        if pemon is not None and solver._evalmon is not pemon:
            res["kw_dropped"] = True
        if pend is not None:
            prev = st.pop("pending_prev", (None, None, None))
            if pend[0] is not None and solver._constraints is not pend[0]:
                # the Step refused to start (the solver had stopped): its keywords were never read, the constraints are not installed
                st["inplace"], st["cons_k"], st["eff_k"] = prev
                res["kw_dropped"] = True
        res["inputs"] = [step_inputs(solver, rec)]
    elif o == "Solve":
        rec.solve_inputs = []
        try:
            kw = dict(callback=CbFn(tag)) if op.get("cb", False) else {}
            kw.update(_de_kwds(op))
            solver.Solve(**kw)
        finally:
            res["inputs"] = rec.solve_inputs
            rec.solve_inputs = None
        msg = solver.Terminated(info=True) or None
    elif o == "Finalize":
        solver.Finalize()
    elif o == "RequestExit":
        solver._EARLYEXIT = True
    else:
        raise ValueError(o)
    return res, msg


def _de_kwds(op):
    """DE settings passed as (sticky) keywords of Step/Solve: strategy by callable, CrossProbability, ScalingFactor"""
    k = op.get("kw") or {}
    out = {}
    if "strategy" in k:
        import mystic.strategy as st
        out["strategy"] = getattr(st, k["strategy"])
    for name in ("CrossProbability", "ScalingFactor", "adaptive", "radius", "xtol", "imax"):      # (Nelder-Mead / Powell options are sticky too)
        if name in k:
            out[name] = k[name]
    return out


def run_script(case):
    import io, contextlib, warnings
    with warnings.catch_warnings():
        warnings.simplefilter("ignore")
        with contextlib.redirect_stdout(io.StringIO()):
            return _run_script(case)


def _run_script(case):
    """case: dict(solver, ndim, npop, seed, strategy, ops=[...]).  Returns dict(trace=[snapshot per op], opres, calls, tables)."""
    kind = case["solver"]
    random.seed(case["seed"])
    np.random.seed(case["seed"] % (2 ** 31))
    tag = new_tag()
    rec = REG[tag] = Rec()
    case_tag = tag
    try:
        solver = build_solver(kind, case["ndim"], case.get("npop", 4))
        solver._verif_tag = tag
        if kind in ("DE", "DE2") and not case.get("de_kw"):
            solver.strategy = case.get("strategy", "Best1Bin")
            solver.probability = case.get("cross", 0.9)
            solver.scale = case.get("scale", 0.8)
        trace, opres = [], []
        with Instrumented():
            for k, op in enumerate(case["ops"]):
                res, msg = apply_op(solver, rec, op, k, case_tag)
                opres.append(res)
                trace.append(snapshot(solver, rec, msg))
        return pack(rec, trace, opres)
    finally:
        REG.pop(tag, None)


def pack(rec, trace, opres):
    return dict(trace=trace, opres=opres,
                calls=[dict(x=x, y=y, k=k, **c) for (x, y, k), c in zip(rec.cost_calls, rec.call_ctx)],
                cons_tab=[list(t) for t in rec.tabs["cons"]], pen_tab=[list(t) for t in rec.tabs["pen"]], cb=list(rec.cb))


# ---------------------------------------------------------------- Gallina printing

def fl(xs):
    return "(%s : list float)" % lst(xs, flit)


def fll(xss):
    return "(%s : list (list float))" % lst([lst(r, flit) for r in xss])


def yv(y):
    return "(YS NumF %s)" % flit(y["s"]) if "s" in y else "(YV NumF %s)" % fl(y["v"])


PREAMBLE = r"""
From Coq Require Import ZArith.
From MV Require Import Common.Num Core.Machine Core.DE Core.NM Core.Powell Core.Exec.
From Coq Require Import PrimFloat.
Open Scope Z_scope.
"""


def term_coq(t):
    k = t["kind"]
    if k == "never":
        return "(TVTR NumF %s %s)" % (flit(-1.0), flit(0.0))
    if k == "vtr":
        return "(TVTR NumF %s %s)" % (flit(t["tol"]), flit(t["target"]))
    if k == "cog":
        return "(TCOG NumF %s %s)" % (flit(t["tol"]), natlit(t["g"]))
    if k == "ncog":
        return "(TNCOG NumF %s %s)" % (flit(t["tol"]), natlit(t["g"]))
    if k == "or":
        return "(TOr NumF %s %s)" % (term_coq(t["a"]), term_coq(t["b"]))
    if k == "and":
        return "(TAnd NumF %s %s)" % (term_coq(t["a"]), term_coq(t["b"]))
    raise ValueError(k)


def modelled(case):
    """is the whole script inside the modelled fragment?"""
    term = False
    tightish = any(op["op"] == "SetStrictRanges" and op.get("lo") is not None and (op.get("tight") or op.get("clip") is not None) for op in case["ops"])
    for op in case["ops"]:
        if op["op"] == "SetStrictRanges" and op.get("clip") is False:
            return False        # impose_bounds(clip=False) re-draws points at random: not a function of its argument
        if op["op"] == "SetStrictRanges" and op.get("tight") is False and op.get("clip") is not None:
            return False        # rejected by SetStrictRanges (ValueError)
        if tightish and op["op"] == "SetConstraints" and op["cons"].get("kind") == "pin":
            # a pin that conflicts with the box makes constraints.and_ randomise (not a function of its argument either)
            for b in case["ops"]:
                if b["op"] == "SetStrictRanges" and b.get("lo") is not None:
                    i = op["cons"]["i"] % len(b["lo"])
                    if not (b["lo"][i] <= op["cons"]["c"] <= b["hi"][i]):
                        return False
        if op["op"] == "SetEvalMonitor" and op.get("prefill"):
            return False
        if op["op"] == "SetStepMonitor" and op.get("log_k"):
            return False
        if op["op"] == "SetTermination":
            term = True
            if op["term"].get("kind") == "or_collapse" or '"solimp"' in json.dumps(op["term"]):
                return False
        if op["op"] in ("Step", "Solve") and not term:
            return False        # the solvers' default termination conditions are not in the machine model (generated scripts always set one)
    return case["solver"] in MODELLED


def script_coq(case, out):
    """Gallina term: list of ops for the machine (tables inlined as functions)"""
    kind = case["solver"]
    def tab_cost(k):
        return "(%s : list (list float * yval NumF))" % lst(["(%s, %s)" % (fl(c["x"]), yv(c["y"])) for c in out["calls"] if c["k"] == k])
    def tab_cons(k):
        return "(%s : list (list float * list float))" % lst(["(%s, %s)" % (fl(a), fl(b)) for a, b, kk in out["cons_tab"] if kk == k])
    def tab_pen(k):
        return "(%s : list (list float * float))" % lst(["(%s, %s)" % (fl(a), flit(b)) for a, b, kk in out["pen_tab"] if kk == k])
    inmk = "mk_de_in" if kind in ("DE", "DE2") else "mk_nm_in" if kind == "NM" else "mk_pw_in"
    def inp(i):
        if kind == "POW":
            n = i.get("ndim", case["ndim"])
            lss = "(%s : list (list (list float) * nat))" % lst(["(%s, %s)" % (fll(l["probes"]), natlit(max(l["ret"], 0))) for l in i["ls"]])
            took = len(i["ls"]) > n
            x2 = opt(i["cands"][0] if (i["cands"] and i["ls"]) else None, fl)
            return "(mk_pw_in %s %s %s %s)" % (lss, x2, blit(took), opt(i["deco"], fll))
        if kind in ("DE", "DE2"):
            return "(%s %s %s)" % (inmk, fll(i["trials"]), opt(i["deco"], fll))
        return "(%s %s %s %s %s)" % (inmk, fll(i["cands"]), opt(i["deco"], fll), blit(i.get("inplace", False)),
                                    "(%s : list nat)" % lst(i.get("perm") or [], natlit))
    ops = []
    tight_on, user_cons = False, "(fun x => x)"
    for k, (op, res) in enumerate(zip(case["ops"], out["opres"])):
        o = op["op"]
        if o == "SetObjective":
            ops.append("@OSetObjective NumF _ (lookup_y %s)" % tab_cost(k))
        elif o in ("SetPenalty", "SetEvalMonitor") and op.get("defer") and k + 1 < len(out["opres"]) and out["opres"][k + 1].get("kw_dropped"):
            ops.append("@OSameEvalMonitor NumF _")       # handed to a Step that refused to start: never installed (a no-op of the machine)
        elif o == "SetPenalty":
            ops.append("@OSetPenalty NumF _ (lookup_e %s)" % tab_pen(k) if op["pen"]["kind"] != "none" else "@OSetPenalty NumF _ (fun _ => 0%float)")
        elif o == "SetConstraints":
            if op.get("defer") and k + 1 < len(out["opres"]) and out["opres"][k + 1].get("kw_dropped"):
                ops.append("@OSameEvalMonitor NumF _")       # handed to a Step that refused to start: never installed (a no-op of the machine)
                continue
            ident = op["cons"]["kind"] == "ident" and not op["cons"].get("inplace")
            user_cons = "(fun x => x)" if ident else "(lookup_v %s)" % tab_cons(k)
            # under tight / clip ranges the function applied wherever "the constraints" are is the recorded composite of this configuration
            ops.append("@OSetConstraints NumF _ %s" % ("(lookup_v %s)" % tab_cons("eff:%d" % k) if tight_on else user_cons))
        elif o == "SetStrictRanges":
            box = "None" if op["lo"] is None else "(Some (%s, %s))" % (fl(op["lo"]), fl(op["hi"]))
            now_tight = op["lo"] is not None and bool(op.get("tight") or op.get("clip") is not None)
            if now_tight:
                ops.append("@OSetRangesCons NumF _ %s (lookup_v %s)" % (box, tab_cons("eff:%d" % k)))
            elif tight_on:      # back to the default mode (or no ranges): the user's constraints again
                ops.append("@OSetRangesCons NumF _ %s %s" % (box, user_cons))
            else:
                ops.append("@OSetStrictRanges NumF _ %s" % box)
            tight_on = now_tight
        elif o == "SetReducer":
            ops.append("@OSetReducer NumF _ %s" % {None: "None", "sum": "(Some red_sum)", "max": "(Some red_max)", "sumsq": "(Some red_sumsq)", "min": "(Some red_min)"}[op["red"]])
        elif o == "SetLimits":
            ops.append("@OSetLimits NumF _ %s %s %s" % (opt(op["g"], zlit), opt(op["e"], zlit), blit(op["new"])))
        elif o == "SetTermination":
            ops.append("@OSetTermination NumF _ %s" % term_coq(op["term"]))
        elif o == "SetEvalMonitor":
            # the monitor already in use handed over again: nothing is prepended to itself, the cost is not rebound
            ops.append("@OSameEvalMonitor NumF _" if op.get("same") else "@OSetEvalMonitor NumF _ %s" % blit(op["new"]))
        elif o == "SetStepMonitor":
            ops.append("@OSetStepMonitor NumF _ %s" % blit(op["new"]))
        elif o in ("SetRandomInitialPoints", "SetInitialPoints"):
            ops.append("@OSetPopulation NumF _ %s" % fll(res["pop"]))
        elif o == "Step":
            ops.append("@OStep NumF _ %s %s" % (blit(op.get("cb", False)), inp(res["inputs"][0])))
        elif o == "Solve":
            dflt = {"DE": "(mk_de_in nil None)", "DE2": "(mk_de_in nil None)", "NM": "(mk_nm_in nil None false nil)",
                    "POW": "(mk_pw_in nil None false None)"}[kind]
            ops.append("@OSolve NumF _ %s %s %s" % (blit(op.get("cb", False)), lst([inp(i) for i in res["inputs"]]), dflt))
        elif o == "Finalize":
            ops.append("@OFinalize NumF _")
        elif o == "RequestExit":
            ops.append("@ORequestExit NumF _")
    lets = ""
    return lets, "[%s]" % "; ".join("(%s)" % o for o in ops)


def obs_coq(snap, with_emon):
    """expected observable record"""
    em = "None"
    if with_emon and snap["emx"] is not None:
        em = "(Some %s)" % lst(["(%s, %s)" % (fl(x), yv(y)) for x, y in zip(snap["emx"], snap["emy"])])
    return "(mk_obs %s %s %s %s %s %s %s %s %s %s %s)" % (
        fll(snap["pop"]), fl(snap["popE"]), fl(snap["bestX"]), flit(snap["bestE"]), zlit(snap["evals"]), zlit(snap["gens"]),
        fl(snap["ehist"]), fll(snap["shist"]), em, {"none": "MNone", "limits": "MLimits", "interrupt": "MInterrupt", "term": "MTerm"}[snap["msg"]],
        zlit(snap["ncalls"]))


def check_term(case, out, mask):
    """bool term: the machine reproduces the observed trace (mask selects the compared observables)"""
    kind = case["solver"]
    lets, ops = script_coq(case, out)
    runner = {"DE": "run_de false", "DE2": "run_de true", "NM": "run_nm", "POW": "run_pw"}[kind]
    exp = lst([obs_coq(s, True) for s in out["trace"]])
    calls = "(%s : list (list float * yval NumF))" % lst(["(%s, %s)" % (fl(c["x"]), yv(c["y"])) for c in out["calls"]])
    cbs = fll(out["cb"])
    return "(%s check_trace %s (%s %s %s %s) %s %s %s)" % (
        lets, mask, runner, natlit(case.get("npop", 4)), natlit(case["ndim"]), ops, exp, calls, cbs)


def debug_term(case, out):
    kind = case["solver"]
    lets, ops = script_coq(case, out)
    runner = {"DE": "run_de false", "DE2": "run_de true", "NM": "run_nm", "POW": "run_pw"}[kind]
    exp = lst([obs_coq(s, True) for s in out["trace"]])
    calls = "(%s : list (list float * yval NumF))" % lst(["(%s, %s)" % (fl(c["x"]), yv(c["y"])) for c in out["calls"]])
    return "(%s diag_trace (%s %s %s %s) %s %s %s)" % (lets, runner, natlit(case.get("npop", 4)), natlit(case["ndim"]), ops, exp, calls, fll(out["cb"]))
